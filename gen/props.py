"""Per-property case streams.  Each function yields (case_text, nontrivial)."""
import itertools
from gen import G, Z, sx, ohg_types, lohg_types, BACKENDS


import os
QUICK_SCALE = int(os.environ.get("VERIF_QUICK_SCALE", "6"))
ESCALATE = int(os.environ.get("VERIF_ESCALATE", "2"))
THOROUGH_SCALE = int(os.environ.get("VERIF_THOROUGH_SCALE", "3"))


def N(tier, quick, thorough):
    # the quick tier runs QUICK_SCALE times the base number of random iterations (a case costs about a millisecond)
    if tier == "escalated":     # the source differs from the fingerprint: the largest random stream
        return thorough * ESCALATE
    if tier == "quick":
        return min(quick * QUICK_SCALE, thorough)
    return thorough * THOROUGH_SCALE


def mutate_list(g, l, hi):
    """one edit away from l"""
    l = list(l)
    k = g.r.random()
    if l and k < 0.4:
        l[g.r.randrange(len(l))] = g.nat(hi)
    elif l and k < 0.6:
        del l[g.r.randrange(len(l))]
    else:
        l.insert(g.r.randint(0, len(l)), g.nat(hi))
    return l


# --------------------------------------------------------------------------- C06
def all_ffs(maxn, maxt):
    for t in range(maxt + 1):
        for n in range(maxn + 1):
            for tab in itertools.product(range(t), repeat=n):
                yield [list(tab), t]


def C06(g, tier):
    # exhaustive small scope
    small = list(all_ffs(3, 3))
    for f in small:
        yield sx(["ff_is_injective", f]), len(f[0]) > 1
        yield sx(["ff_cumulative_sum", f]), len(f[0]) > 0
        yield sx(["ff_to_initial", f]), False
        for b in range(3):
            yield sx(["ff_inject0", f, b]), len(f[0]) > 0
            yield sx(["ff_inject1", f, b]), len(f[0]) > 0
    for f in small:
        for h in small:
            yield sx(["ff_compose", f, h]), len(f[0]) > 0 and f[1] == len(h[0])
            yield sx(["ff_coproduct", f, h]), len(f[0]) + len(h[0]) > 0
            yield sx(["ff_tensor", f, h]), len(f[0]) > 0 and len(h[0]) > 0
    pairs = [(f, h) for f in all_ffs(3, 4) for h in all_ffs(3, 4) if len(f[0]) == len(h[0]) and f[1] == h[1]]
    if tier == "quick":
        pairs = [p for p in pairs if p[0][1] <= 3] + g.r.sample(pairs, 300)
    for f, h in pairs:
        for bk in BACKENDS:
            yield sx(["ff_coequalizer", bk, f, h]), len(f[0]) >= 2
    for t in range(5):
        for n in range(4):
            for tab in itertools.product(range(t + 1), repeat=n):  # includes out-of-range values
                yield sx(["ff_new", list(tab), t]), n > 0
    for a in range(5):
        yield sx(["ff_terminal", a]), a > 0
        yield sx(["ff_initial", a]), False
        yield sx(["ff_identity", a]), a > 0
        for b in range(5):
            yield sx(["ff_inj0", a, b]), a > 0
            yield sx(["ff_inj1", a, b]), b > 0
            yield sx(["ff_twist", a, b]), a > 0 and b > 0
            yield sx(["ff_transpose", a, b]), a > 1 and b > 1
            for x in range(3):
                yield sx(["ff_constant", a, x, b]), a > 0
    for s2, t2, n2 in deep_cc_cases(g, N(tier, 10, 100)):
        for bk in BACKENDS:
            yield sx(["ff_coequalizer", bk, [s2, n2], [t2, n2]]), True
    for _ in range(N(tier, 60, 600)):
        n3 = g.r.randint(6, 30)
        sa, sb = long_legs(g, n3, g.r.randint(8, 40))
        for bk in BACKENDS:
            yield sx(["ff_coequalizer", bk, [sa, n3], [sb, n3]]), True
        # long tables with the offending entry anywhere (also in the tail)
        t3 = g.r.randint(1, 9)
        tab = [g.nat(t3 - 1) for _ in range(g.r.randint(9, 40))]
        if g.r.random() < 0.5:
            tab[g.r.choice([len(tab) - 1, len(tab) - 2, g.r.randrange(len(tab))])] = t3 + g.nat(2)
        yield sx(["ff_new", tab, t3]), True
    # equality: same table / different codomain, same codomain / table differing in one (late) entry
    for _ in range(N(tier, 80, 800)):
        f = g.ff()
        k = g.r.random()
        if k < 0.3:
            h = [list(f[0]), f[1]]
        elif k < 0.5:
            h = [list(f[0]), f[1] + g.r.randint(1, 2)]
        elif k < 0.8 and f[0]:
            t2 = list(f[0])
            i2 = g.r.choice([len(t2) - 1, g.r.randrange(len(t2))])
            t2[i2] = (t2[i2] + 1) % max(f[1], 1)
            h = [t2, f[1]]
        else:
            h = g.ff()
        yield sx(["ff_eq", g.r.choice(BACKENDS), f, h]), True
        yield sx(["semi_eq", g.r.choice(BACKENDS), f[0], h[0]]), True
    # random stream
    for _ in range(N(tier, 400, 4000)):
        f = g.ff()
        h = g.ff(n=f[1]) if g.r.random() < 0.8 else g.ff()
        yield sx(["ff_compose", f, h]), len(f[0]) > 0
        u = g.nats(f[1] if g.r.random() < 0.85 else g.size(), 5)
        yield sx(["ff_compose_semi", f, u]), len(f[0]) > 0
        yield sx(["ff_source", f]), False
    for _ in range(N(tier, 400, 4000)):
        # injections: s : N -> K sizes, a : A -> N
        n = g.size()
        sizes = g.sizes(n)
        s = [sizes, (max(sizes) + 1 + g.nat(2)) if sizes else g.nat(2)]
        a = g.ff(t=n) if g.r.random() < 0.9 else g.ff()
        yield sx(["ff_injections", s, a]), len(a[0]) >= 2 and sum(sizes) > 2
    for _ in range(N(tier, 600, 6000)):
        # coequalizer + universal on the result
        t = g.size(6)
        n = g.size(6) if t else 0
        f = [[g.r.randrange(t) for _ in range(n)], t]
        h = [[g.r.randrange(t) for _ in range(n)], t]
        if g.r.random() < 0.1:
            h = g.ff()
        for bk in BACKENDS:
            yield sx(["ff_coequalizer", bk, f, h]), n >= 2
        # a surjection q and label arrays, constant on fibres or not
        k = g.r.randint(1, 4) if t else 0
        q = list(range(k)) + [g.r.randrange(k) for _ in range(max(0, t - k))] if k else []
        g.r.shuffle(q)
        qf = [q, k]
        lab = [g.nat(3) for _ in range(k)]
        u = [lab[c] for c in q]
        if u and g.r.random() < 0.4:
            u[g.r.randrange(len(u))] = g.nat(3)
        if g.r.random() < 0.1:
            u = mutate_list(g, u, 3)
        for bk in BACKENDS:
            yield sx(["coequalizer_universal", bk, qf, u]), len(q) > k
            yield sx(["ff_coequalizer_universal", bk, qf, [u, 4]]), len(q) > k
    sfa = lambda: g.r.choice(["identity", ["finite", g.ff()], ["semi", g.nats(g.size(), 3)]])
    for _ in range(N(tier, 150, 1000)):
        a, b = sfa(), sfa()
        if g.r.random() < 0.5 and isinstance(a, list) and a[0] == "finite":
            b = g.r.choice([["finite", g.ff(n=a[1][1])], ["semi", g.nats(a[1][1], 3)]])
        yield sx(["sfa_compose", a, b]), isinstance(a, list)
        yield sx(["sfa_source", a]), False
        yield sx(["sfa_target", a]), False
        yield sx(["sfa_identity", g.r.choice(["set", ["finite", g.size()]])]), False


# --------------------------------------------------------------------------- C07
def ranges(g, n):
    a, b = g.nat(n + 1), g.nat(n + 1)
    return g.r.choice([["full"], ["from", a], ["to", b], ["fromto", a, b], ["toincl", b], ["fromtoincl", a, b]])


def long_legs(g, n, k):
    """two index lists of length k over [0,n) with structured patterns (long chains in awkward orders)"""
    pat = g.r.choice(["zigzag", "dec_const", "const_dec", "inc_shift", "dec_shift", "random", "pairs_rev", "paths", "paths"])
    if n == 0:
        return [], []
    if pat == "paths":
        # a forest of monotone paths, each listed from its far or near end, then links from path tips to members of
        # other paths (deep chains built in one sweep, joined late)
        nodes = list(range(n))
        if g.r.random() < 0.3:
            g.r.shuffle(nodes)
        cuts = sorted(g.r.sample(range(1, n), min(n - 1, g.r.choice([1, 1, 2, 3])))) if n >= 2 else []
        groups = [nodes[i:j] for i, j in zip([0] + cuts, cuts + [n])]
        a, b = [], []
        for grp in groups:
            pairs = [(grp[i], grp[i + 1]) for i in range(len(grp) - 1)]
            if g.r.random() < 0.5:
                pairs = [(y, x) for x, y in pairs]
            if g.r.random() < 0.6:
                pairs.reverse()
            a += [x for x, _ in pairs]
            b += [y for _, y in pairs]
        for i in range(len(groups) - 1):
            if g.r.random() < 0.85:
                tip = g.r.choice([groups[i + 1][-1], groups[i + 1][0]])
                other = g.r.choice([groups[i][0], groups[i][-1], g.r.choice(groups[i])])
                if g.r.random() < 0.5:
                    tip, other = other, tip
                a.append(tip)
                b.append(other)
        return a, b
    if pat == "zigzag":
        a = [(i // 2) % n for i in range(k)]
        b = [((i + 1) // 2) % n for i in range(k)]
        a, b = a[::-1], b[::-1]
    elif pat == "dec_const":
        a = [(n - 1 - i) % n for i in range(k)]
        b = [0] * k
    elif pat == "const_dec":
        a = [n - 1] * k
        b = [(n - 1 - i) % n for i in range(k)]
    elif pat == "inc_shift":
        a = [i % n for i in range(k)]
        b = [(i + 1) % n for i in range(k)]
    elif pat == "dec_shift":
        a = [(n - 1 - i) % n for i in range(k)]
        b = [(n - 2 - i) % n for i in range(k)]
    elif pat == "pairs_rev":
        a = [(2 * i) % n for i in range(k)][::-1]
        b = [(2 * i + 1) % n for i in range(k)][::-1]
    else:
        a, b = g.nats(k, n - 1), g.nats(k, n - 1)
    return a, b


def tournament_edges(g, n, shuffle=True):
    """unions in tournament (balanced) order: builds union-find trees of depth log2(n)"""
    s, t = [], []
    step = 1
    ids = list(range(n))
    if shuffle:
        g.r.shuffle(ids)
    while step < n:
        for i in range(0, n - step, 2 * step):
            a, b = ids[i + step], ids[i]
            if g.r.random() < 0.5:
                a, b = b, a
            # link the LAST element of each block so that roots get linked to roots of equal rank
            s.append(ids[min(i + 2 * step, n) - 1])
            t.append(ids[i + step - 1])
        step *= 2
    return s, t


def deep_cc_cases(g, k):
    for _ in range(k):
        n = g.r.choice([32, 33, 48, 64, 64, 100, 128])
        s, t = tournament_edges(g, n, shuffle=g.r.random() < 0.7)
        if g.r.random() < 0.5:
            # higher id first (the order that makes naive pointer structures deep)
            s, t = zip(*[(max(a, b), min(a, b)) for a, b in zip(s, t)])
            s, t = list(s), list(t)
        extra = g.r.randint(0, 5)
        s += g.nats(extra, n - 1)
        t += g.nats(extra, n - 1)
        yield s, t, n


def C07(g, tier):
    for s2, t2, n2 in deep_cc_cases(g, N(tier, 12, 120)):
        yield sx(["a_cc", "vec", s2, t2, n2]), True
        yield sx(["a_cc", "adv", s2, t2, n2]), True
        yield sx(["a_cc_uf", s2, t2, n2]), True
        f, h = [s2, n2], [t2, n2]
        yield sx(["ff_coequalizer", "vec", f, h]), True
    # exhaustive: all arrays of length <= 3 over {0,1,2} for the order-sensitive primitives
    for n in range(4):
        for xs in itertools.product(range(3), repeat=n):
            xs = list(xs)
            for bk in BACKENDS:
                yield sx(["a_argsort", bk, xs]), n >= 2
                yield sx(["a_sparse_bincount", bk, xs]), n >= 2
            yield sx(["a_cumsum", xs]), n > 0
            yield sx(["a_to_dense", [x * 3 for x in xs]]), n > 1
            yield sx(["a_sum", xs]), n > 0
            yield sx(["a_max", xs]), n > 0
            yield sx(["a_zero", xs]), n > 0
            yield sx(["a_segmented_arange", xs]), n > 1
            yield sx(["a_bincount", xs, 3]), n > 0
            for idx in itertools.product(range(3), repeat=n):
                for bk in BACKENDS:
                    yield sx(["a_scatter", bk, xs, list(idx), 3]), n >= 2
    # exhaustive: all edge lists with <= 3 edges over <= 3 nodes
    for nn in range(4):
        for ne in range(4 if tier in ("thorough", "escalated") else 3):
            for s in itertools.product(range(nn), repeat=ne):
                for t in itertools.product(range(nn), repeat=ne):
                    for bk in BACKENDS:
                        yield sx(["a_cc", bk, list(s), list(t), nn]), ne >= 1
                    yield sx(["a_cc_uf", list(s), list(t), nn]), ne >= 1
    for _ in range(N(tier, 300, 3000)):
        n = g.size(6)
        xs = g.nats(n, 5)
        ys = g.nats(n if g.r.random() < 0.9 else g.size(), 5)
        ix = g.nats(g.size(6), max(n - 1, 0)) if (n and g.r.random() < 0.9) else g.nats(g.size(), n + 1)
        yield sx(["a_max", xs]), n > 0
        if g.r.random() < 0.3:      # values near the top of the usize range (scaled by the harness)
            bk2 = g.r.choice(BACKENDS)
            ys = g.nats(g.size(6), 15)
            yield sx(["a_sparse_bincount_big", bk2, ys]), len(ys) > 1
            yield sx(["a_argsort_big", bk2, ys]), len(ys) > 1
            yield sx(["a_sort_by_big", bk2, g.nats(len(ys), 9), ys]), len(ys) > 1
        yield sx(["a_max", [g.nat(3) for _ in range(g.r.randint(9, 30))] + [g.r.choice([0, 7, 9])]]), True
        yield sx(["a_sum", xs]), n > 0
        yield sx(["a_cumsum", xs]), n > 0
        yield sx(["a_zero", xs]), n > 0
        if g.r.random() < 0.3:
            nn3 = g.r.choice([5, 6, 7, 7, 9, 10, 11, 12, 13, 15, 17, 20, 24, 30])
            sa, sb = long_legs(g, nn3, g.r.randint(8, 40))
            for bk in BACKENDS:
                yield sx(["a_cc", bk, sa, sb, nn3]), True
            yield sx(["a_cc_uf", sa, sb, nn3]), True
        pre = g.r.choice(["a_", "al_"])
        yield sx([pre + "get", xs, g.nat(n)]), n > 0
        yield sx([pre + "gather", xs, ix]), n > 0 and len(ix) > 0
        yield sx([pre + "concat", xs, ys]), n > 0
        yield sx([pre + "fill", g.nat(5), g.size()]), False
        yield sx([pre + "get_range", xs, ranges(g, n)]), n > 0
        r = ranges(g, n)
        yield sx([pre + "set_range", xs, r, g.nats(g.size(), 5)]), n > 0
        yield sx(["a_to_range", n, ranges(g, n)]), False
        vals = g.nats(len(ix) if g.r.random() < 0.8 else g.size(), 9)
        yield sx([pre + "scatter_assign", xs, ix, vals]), len(ix) > 1
        yield sx([pre + "scatter_assign_constant", xs, ix, g.nat(9)]), len(ix) > 1
        m = g.size(6)
        src = g.nats(m, 9)
        idx = g.nats(m if g.r.random() < 0.9 else g.size(), max(n - 1, 0)) if n else []
        for bk in BACKENDS:
            yield sx([pre + "scatter", bk, src, idx, n]), m > 1
        yield sx(["a_add", xs, ys]), n > 0
        big = [x + y for x, y in zip(xs, ys)] if len(xs) == len(ys) and g.r.random() < 0.7 else xs
        yield sx(["a_sub", big, ys]), n > 0
        yield sx(["a_add_scalar", g.nat(5), xs]), n > 0
        yield sx(["a_arange", g.nat(4), g.nat(8)]), False
        yield sx(["a_repeat", xs, ys]), n > 0
        yield sx(["a_quot_rem", xs, g.nat(4)]), n > 0
        yield sx(["a_mul_constant_add", xs, g.nat(4), ys]), n > 0
        yield sx(["a_bincount", xs, g.r.choice([6, 6, 6, g.nat(6)])]), n > 0
        for bk in BACKENDS:
            yield sx(["a_argsort", bk, xs]), n > 2
            yield sx(["a_sort_by", bk, ys, xs]), n > 2
            yield sx(["a_sparse_bincount", bk, xs]), n > 2
        # segmented sum: sizes summing to len(values) (mostly)
        sz = g.sizes(g.size(5))
        v = g.nats(sum(sz) if g.r.random() < 0.9 else g.size(), 9)
        yield sx(["a_segmented_sum", sz, v]), len(sz) > 1
        yield sx(["a_segmented_arange", sz]), len(sz) > 1
        # scatter_sub_assign with and without underflow
        cnt = g.nats(n, 3)
        tot = list(cnt)
        si = g.nats(g.size(4), max(n - 1, 0)) if n else []
        sr = g.nats(len(si), 2)
        for i, rr in zip(si, sr):
            tot[i] += rr
        yield sx(["a_scatter_sub_assign", tot if g.r.random() < 0.8 else cnt, si, sr]), len(si) > 0
        nn = g.size(7)
        ne = g.size(7) if nn else 0
        s = g.nats(ne, max(nn - 1, 0))
        t = g.nats(ne, max(nn - 1, 0))
        if g.r.random() < 0.08:
            t = mutate_list(g, t, nn + 1)
        for bk in BACKENDS:
            yield sx(["a_cc", bk, s, t, nn]), ne > 1
        yield sx(["a_cc_uf", s, t, nn]), ne > 1
        # longer chains / deeper union-find trees
        if g.r.random() < 0.3:
            nn2 = g.r.randint(8, 20)
            ne2 = g.r.randint(nn2 // 2, 2 * nn2)
            s2, t2 = g.nats(ne2, nn2 - 1), g.nats(ne2, nn2 - 1)
            yield sx(["a_cc_uf", s2, t2, nn2]), True
            yield sx(["a_cc", "vec", s2, t2, nn2]), True


# --------------------------------------------------------------------------- C08
def all_ics(maxseg, maxsz, maxlab):
    for nseg in range(maxseg + 1):
        for sz in itertools.product(range(maxsz + 1), repeat=nseg):
            tot = sum(sz)
            for vals in itertools.product(range(maxlab), repeat=tot):
                yield [[list(sz), tot + 1], list(vals)]


def C08(g, tier):
    for c in all_ics(3, 2, 2):
        nt = len(c[0][0]) >= 2 and 0 in c[0][0] and 2 in c[0][0]
        yield sx(["ics_iter", c]), nt
        yield sx(["ics_iter_slices", c]), nt
        cf = [c[0], [c[1], 2]]
        yield sx(["icf_iter", cf]), nt
        yield sx(["icf_len", cf]), False
    import copy
    for _ in range(N(tier, 100, 1000)):
        c = g.icf()
        n = len(c[0][0])
        ks = [g.r.choice([0, 0, 1, 2, n, n + 1, max(n - 1, 0), 5]) for _ in range(g.r.randint(1, 5))]
        yield sx(["icf_iter_script", g.r.choice(BACKENDS), c, ks]), n >= 2
        yield sx(["ics_iter_script", g.r.choice(BACKENDS), [c[0], c[1][0]], ks]), n >= 2
    for _ in range(N(tier, 60, 600)):
        c = g.icf()
        d = copy.deepcopy(c)
        k = g.r.random()
        if k < 0.3 and d[1][0]:
            d[1][0][-1] = (d[1][0][-1] + 1) % d[1][1]
        elif k < 0.45:
            d[1][1] += 1
        elif k < 0.6 and len(d[0][0]) >= 2:
            # same concatenation, different segmentation
            i2 = g.r.randrange(len(d[0][0]) - 1)
            if d[0][0][i2] > 0:
                d[0][0][i2] -= 1
                d[0][0][i2 + 1] += 1
        yield sx(["icf_eq", g.r.choice(BACKENDS), c, d]), True
        yield sx(["ics_eq", g.r.choice(BACKENDS), [c[0], c[1][0]], [d[0], d[1][0]]]), True
    for _ in range(N(tier, 400, 4000)):
        c = g.icf()
        d = g.icf(tgt=c[1][1]) if g.r.random() < 0.8 else g.icf()
        nt = len(c[0][0]) >= 2 and max(c[0][0] + [0]) >= 2
        yield sx(["icf_tensor", c, d]), nt
        yield sx(["icf_coproduct", c, d]), nt
        cs, ds = g.ics(), g.ics()
        yield sx(["ics_coproduct", cs, ds]), len(cs[0][0]) >= 2
        # constructors: valid and one edit away
        s, v = c
        if g.r.random() < 0.4:
            k = g.r.random()
            if k < 0.3:
                s = [s[0], s[1] + g.r.choice([-1, 1]) if s[1] > 0 else 1]
            elif k < 0.6:
                s = [mutate_list(g, s[0], 3), s[1]]
            else:
                v = [mutate_list(g, v[0], max(v[1] - 1, 0)), v[1]]
        yield sx(["icf_new", s, v]), len(s[0]) >= 2
        yield sx(["ics_new", s, v[0]]), len(s[0]) >= 2
        yield sx(["icf_from_semifinite", s[0], v]), len(s[0]) >= 2
        yield sx(["ics_from_semifinite", s[0], v[0]]), len(s[0]) >= 2
        f = g.ff()
        yield sx(["icf_singleton", f]), len(f[0]) > 0
        yield sx(["ics_singleton", f[0]]), len(f[0]) > 0
        yield sx(["icf_elements", f]), len(f[0]) > 1
        yield sx(["ics_elements", f[0]]), len(f[0]) > 1
        yield sx(["icf_initial", g.size()]), False
        # re-indexing
        x = g.ff(t=len(c[0][0])) if g.r.random() < 0.9 else g.ff()
        yield sx(["icf_map_indexes", c, x]), nt and len(x[0]) > 1
        yield sx(["icf_indexed_values", c, x]), nt and len(x[0]) > 1
        xs = g.ff(t=len(cs[0][0]))
        yield sx(["ics_map_indexes", cs, xs]), len(xs[0]) > 1
        yield sx(["ics_indexed_values", cs, xs]), len(xs[0]) > 1
        m = g.ff(n=c[1][1]) if g.r.random() < 0.9 else g.ff()
        yield sx(["icf_map_values", c, m]), nt
        lab = g.nats(c[1][1] if g.r.random() < 0.9 else g.size(), 4)
        yield sx(["icf_map_semifinite", c, lab]), nt
        # flatmap: d must have target(c.values) segments
        d2 = g.icf(nseg=c[1][1]) if g.r.random() < 0.92 else g.icf()
        yield sx(["icf_flatmap", c, d2]), nt and sum(d2[0][0]) > 1
        # flatmap_sources: other has len(values) segments
        o = g.icf(nseg=len(c[1][0])) if g.r.random() < 0.92 else g.icf()
        yield sx(["icf_flatmap_sources", c, o]), nt
        os_ = g.ics(nseg=len(cs[1])) if g.r.random() < 0.92 else g.ics()
        yield sx(["ics_flatmap_sources", cs, os_]), len(cs[0][0]) >= 2
        yield sx(["icf_iter", c]), nt
        yield sx(["ics_iter", cs]), len(cs[0][0]) >= 2
        yield sx(["ics_iter_slices", cs]), len(cs[0][0]) >= 2
        # operation batches
        n = g.size()
        a = g.ics(nseg=n)
        b = g.ics(nseg=n if g.r.random() < 0.85 else g.size())
        xl = g.nats(n if g.r.random() < 0.85 else g.size(), 4)
        yield sx(["ops_new", xl, a, b]), n >= 2
        yield sx(["ops_validate", [xl, a, b]]), n >= 2
        if len(xl) == n and len(b[0][0]) == n:
            yield sx(["ops_iter", [xl, a, b]]), n >= 2
        yield sx(["ops_singleton", g.nat(4), g.nats(g.size(), 3), g.nats(g.size(), 3)]), False


# --------------------------------------------------------------------------- strict diagrams
def composable(g, **kw):
    f = g.ohg(**kw)
    _, tt = ohg_types(f)
    h = g.ohg_with_source(tt, **kw)
    return f, h


def merges(f, h):
    """does composing f;h identify two previously distinct nodes?"""
    t = f[1][0]
    s = h[0][0]
    return len(t) > 0 and (len(set(t)) < len(t) or len(set(s)) < len(s) or len(t) >= 1)


def all_small_ohgs():
    """every open hypergraph with <= 2 nodes (labels 0/1), <= 1 hyperedge of arity/coarity <= 2, interfaces <= 2"""
    out = []
    for n in range(3):
        lists = [list(t) for k in range(3) for t in itertools.product(range(n), repeat=k)]
        for w in itertools.product(range(2), repeat=n):
            edges = [None] + [(s, t) for s in lists for t in lists]
            for e in edges:
                if e is None:
                    hs = [[[], 1], [[], n]]
                    ht = [[[], 1], [[], n]]
                    x = []
                else:
                    hs = [[[len(e[0])], len(e[0]) + 1], [e[0], n]]
                    ht = [[[len(e[1])], len(e[1]) + 1], [e[1], n]]
                    x = [0]
                for si in lists:
                    for ti in lists:
                        out.append([[si, n], [ti, n], [hs, ht, list(w), x]])
    return out


_SMALL = None


def small_pairs(g, k):
    """k random composable pairs from the exhaustive small universe (grouped by boundary type)"""
    global _SMALL
    if _SMALL is None:
        univ = all_small_ohgs()
        by_src = {}
        for f in univ:
            by_src.setdefault(tuple(ohg_types(f)[0]), []).append(f)
        _SMALL = (univ, by_src)
    univ, by_src = _SMALL
    for _ in range(k):
        f = g.r.choice(univ)
        c = by_src.get(tuple(ohg_types(f)[1]))
        if c:
            yield f, g.r.choice(c)


def C01(g, tier):
    for f, h in small_pairs(g, N(tier, 1500, 60000)):
        for bk in BACKENDS:
            yield sx(["ohg_compose", bk, f, h]), len(f[1][0]) > 0
    for _ in range(N(tier, 600, 6000)):
        f, h = composable(g)
        if g.r.random() < 0.15:
            h = g.ohg()
        for bk in BACKENDS:
            yield sx(["ohg_compose", bk, f, h]), merges(f, h)
    # right operand discrete with equal, non-injective legs (looks like an identity but merges),
    # and identities of the right arity but wrong labels (must be refused)
    for _ in range(N(tier, 150, 1500)):
        f = g.ohg()
        _, tt = ohg_types(f)
        k = len(tt)
        for bk in BACKENDS:
            if k:
                # legs k -> k, equal, constant on label classes
                leg = []
                for i in range(k):
                    c = [j for j in range(k) if tt[j] == tt[i]]
                    leg.append(g.r.choice(c))
                w = list(tt)
                sp = [[leg, k], [leg, k], [[[[], 1], [[], k]], [[[], 1], [[], k]], w, []]]
                yield sx(["ohg_compose", bk, f, sp]), len(set(leg)) < k
                yield sx(["ohg_compose", bk, sp, f if ohg_types(f)[0] == [w[i] for i in leg] else sp]), True
            wrong = [(t + 1) % 4 for t in tt]
            if g.r.random() < 0.5 and k:
                wrong = list(tt)
                j = g.r.randrange(k)
                wrong[j] = (wrong[j] + 1 + g.nat(2)) % 4
            idw = [[list(range(k)), k], [list(range(k)), k], [[[[], 1], [[], k]], [[[], 1], [[], k]], wrong, []]]
            yield sx(["ohg_compose", bk, f, idw]), k > 0
            yield sx(["ohg_compose", bk, idw, g.ohg_with_source(wrong) if g.r.random() < 0.5 else f]), k > 0
    # large boundaries: many identifications collapsing into few classes (deep union-find trees)
    for s2, t2, n2 in deep_cc_cases(g, N(tier, 6, 60)):
        half = n2 // 2
        w = [0] * half
        legs_t = [x % half for x in s2]
        legs_s = [x % half for x in t2]
        f = [[g.nats(2, half - 1), half], [legs_t, half], [[[[], 1], [[], half]], [[[], 1], [[], half]], w, []]]
        h = [[legs_s, half], [g.nats(2, half - 1), half], [[[[], 1], [[], half]], [[[], 1], [[], half]], w, []]]
        for bk in BACKENDS:
            yield sx(["ohg_compose", bk, f, h]), True
        # 16+16 nodes glued along a tournament of legs: t-leg into f's nodes, s-leg into h's nodes
        lt = [x for x in s2 if x < half] + [x - half for x in t2 if x >= half]
        ls = [x for x in t2 if x < half] + [x - half for x in s2 if x >= half]
        m = min(len(lt), len(ls))
        f2 = [[[0], half], [lt[:m], half], [[[[], 1], [[], half]], [[[], 1], [[], half]], w, []]]
        h2 = [[ls[:m], half], [[0], half], [[[[], 1], [[], half]], [[[], 1], [[], half]], w, []]]
        for bk in BACKENDS:
            yield sx(["ohg_compose", bk, f2, h2]), True
    # f-node i ~ g-node i for all i, then a tournament (a, a+d): all 2*half nodes collapse through a
    # balanced merge order (union-find trees of depth log2(2*half))
    for _ in range(N(tier, 6, 40)):
        half = g.r.choice([16, 16, 32, 64])
        ft, gs = list(range(half)), list(range(half))
        d = 1
        while d < half:
            for a in range(0, half, 2 * d):
                if a + d < half:
                    if g.r.random() < 0.9:
                        ft.append(a)
                        gs.append(a + d)
            d *= 2
        if g.r.random() < 0.3:
            perm = list(range(half))
            g.r.shuffle(perm)
            ft = [perm[x] for x in ft]
            gs = [perm[x] for x in gs]
        w = [0] * half
        f3 = [[list(range(half)), half], [ft, half], [[[[], 1], [[], half]], [[[], 1], [[], half]], w, []]]
        h3 = [[gs, half], [list(range(half)), half], [[[[], 1], [[], half]], [[[], 1], [[], half]], w, []]]
        for bk in BACKENDS:
            yield sx(["ohg_compose", bk, f3, h3]), True
    # long boundaries with structured (zig-zag, decreasing, constant) legs between two discrete diagrams
    for _ in range(N(tier, 60, 600)):
        nf, ng = g.r.randint(2, 12), g.r.randint(2, 12)
        k = g.r.randint(8, 30)
        a, b = long_legs(g, max(nf, ng), k)
        a = [x % nf for x in a]
        b = [x % ng for x in b]
        if g.r.random() < 0.5:
            a, b = [x % nf for x in b], [x % ng for x in a]
        disc = lambda n_, s_, t_: [[s_, n_], [t_, n_], [[[[], 1], [[], n_]], [[[], 1], [[], n_]], [0] * n_, []]]
        f4 = disc(nf, g.nats(2, nf - 1), a)
        h4 = disc(ng, b, g.nats(2, ng - 1))
        for bk in BACKENDS:
            yield sx(["ohg_compose", bk, f4, h4]), True
    # chains collapsing many nodes into one: spiders with non-injective legs
    for _ in range(N(tier, 150, 1500)):
        n = g.r.randint(1, 4)
        w = [0] * n
        k = g.r.randint(1, 6)
        f = [[g.nats(g.size(3), n - 1), n], [g.nats(k, n - 1), n], [[[[], 1], [[], n]], [[[], 1], [[], n]], w, []]]
        h = [[g.nats(k, n - 1), n], [g.nats(g.size(3), n - 1), n], [[[[], 1], [[], n]], [[[], 1], [[], n]], w, []]]
        for bk in BACKENDS:
            yield sx(["ohg_compose", bk, f, h]), k >= 2


def C02(g, tier):
    empty = [[[], 0], [[], 0], [[[[], 1], [[], 0]], [[[], 1], [[], 0]], [], []]]
    lempty = [[], [], [[], [], [], [[], []]]]
    for _ in range(N(tier, 300, 3000)):
        f, h, k = g.ohg(), g.ohg(), g.ohg()
        nt = len(f[2][2]) > 0 and len(h[2][2]) > 0 and len(f[0][0]) + len(f[1][0]) > 0
        yield sx(["ohg_tensor", f, h]), nt
        yield sx(["hg_coproduct", f[2], h[2]]), nt
        yield sx(["law", "vec", ["stens", ["stens", ["s", f], ["s", h]], ["s", k]],
                  ["stens", ["s", f], ["stens", ["s", h], ["s", k]]]]), nt
        yield sx(["law", "vec", ["stens", ["s", empty], ["s", f]], ["s", f]]), nt
        yield sx(["law", "vec", ["stens", ["s", f], ["s", empty]], ["s", f]]), nt
        lf, lh, lk = g.lohg(), g.lohg(), g.lohg()
        lnt = len(lf[2][0]) > 0 and len(lh[2][0]) > 0 and len(lf[2][3][0]) + len(lh[2][3][0]) > 0
        yield sx(["lohg_tensor", lf, lh]), lnt
        # the in-place variants (tensor_assign, append, coproduct_assign) must give the same data
        yield sx(["lohg_tensor_assign", lf, lh]), lnt
        yield sx(["lohg_append", lf, lh]), lnt
        yield sx(["lhg_coproduct_assign", lf[2], lh[2]]), lnt
        yield sx(["law", "vec", ["ltens", ["ltens", ["l", lf], ["l", lh]], ["l", lk]],
                  ["ltens", ["l", lf], ["ltens", ["l", lh], ["l", lk]]]]), lnt
        yield sx(["law", "vec", ["ltens", ["l", lempty], ["l", lf]], ["l", lf]]), lnt
        yield sx(["law", "vec", ["ltens", ["l", lf], ["l", lempty]], ["l", lf]]), lnt


def tournament_pair(g, half):
    ft, gs = list(range(half)), list(range(half))
    d = 1
    while d < half:
        for a in range(0, half, 2 * d):
            if a + d < half and g.r.random() < 0.9:
                ft.append(a)
                gs.append(a + d)
        d *= 2
    if g.r.random() < 0.4:
        perm = list(range(half))
        g.r.shuffle(perm)
        ft = [perm[x] for x in ft]
        gs = [perm[x] for x in gs]
    w = [0] * half
    disc = [[[[], 1], [[], half]], [[[], 1], [[], half]], w, []]
    return ([[list(range(half)), half], [ft, half], disc], [[gs, half], [list(range(half)), half], disc])


def C03(g, tier):
    S = lambda f: ["s", f]
    # the lax symmetry: exact data, agreement with the strict one, self-inverse, naturality, hexagon (after to_strict)
    for _ in range(N(tier, 40, 400)):
        a = g.nats(g.r.randint(0, 4), 2)
        b = g.nats(g.r.randint(0, 4), 2)
        c = g.nats(g.r.randint(0, 3), 2)
        if g.r.random() < 0.3:
            a, b, c = [0] * len(a), [0] * len(b), [0] * len(c)
        nt = len(a) != len(b)
        yield sx(["lohg_twist", a, b]), nt
        yield sx(["law", "vec", ["to_strict", ["ltwist", a, b]], ["stwist", a, b]]), nt
        yield sx(["law", "vec", ["to_strict", ["lcomp", ["ltwist", a, b], ["ltwist", b, a]]], ["sid", a + b]]), nt
        yield sx(["law", "vec", ["to_strict", ["ltwist", a, b + c]],
                  ["to_strict", ["lcomp", ["ltens", ["ltwist", a, b], ["lid", c]], ["ltens", ["lid", b], ["ltwist", a, c]]]]]), nt
        lf = g.lohg()
        lh = g.lohg()
        (fa, fb), (ha, hb) = lohg_types(lf), lohg_types(lh)
        yield sx(["law", "vec", ["to_strict", ["lcomp", ["ltens", ["l", lf], ["l", lh]], ["ltwist", fb, hb]]],
                  ["to_strict", ["lcomp", ["ltwist", fa, ha], ["ltens", ["l", lh], ["l", lf]]]]]), len(fb) != len(hb)
    # the unit object as the crate names it (Monoidal::unit())
    for _ in range(N(tier, 20, 100)):
        f = g.ohg()
        lf = g.lohg()
        for bk in BACKENDS:
            yield sx(["law", bk, ["stens", ["sunit"], S(f)], S(f)]), True
            yield sx(["law", bk, ["stens", S(f), ["sunit"]], S(f)]), True
            yield sx(["term", bk, ["sunit"]]), False
        yield sx(["law", "vec", ["ltens", ["lunit"], ["l", lf]], ["l", lf]]), True
        yield sx(["law", "vec", ["ltens", ["l", lf], ["lunit"]], ["l", lf]]), True
        yield sx(["term", "vec", ["lunit"]]), False
        yield sx(["ff_unit_objects", g.r.choice(BACKENDS)]), False
    for _ in range(N(tier, 25, 250)):
        bk = g.r.choice(BACKENDS)
        x = g.nats(g.r.randint(5, 30), 1)
        y = g.nats(g.r.randint(5, 30), 1)
        z = g.nats(g.r.randint(0, 4), 1)
        yield sx(["law", bk, ["scomp", ["stwist", x, y], ["stwist", y, x]], ["sid", x + y]]), True
        yield sx(["law", bk, ["stwist", x, y + z],
                  ["scomp", ["stens", ["stwist", x, y], ["sid", z]], ["stens", ["sid", y], ["stwist", x, z]]]]), True
        yield sx(["ohg_twist", x, y]), True
        yield sx(["ff_twist", len(x), len(y)]), True
    for _ in range(N(tier, 6, 40)):
        half = g.r.choice([8, 12, 16, 32])
        f3, h3 = tournament_pair(g, half)
        k3 = [[list(range(half)), half], [g.nats(2, half - 1), half], f3[2]]
        bk = g.r.choice(BACKENDS)
        yield sx(["law", bk, ["scomp", ["scomp", S(f3), S(h3)], S(k3)], ["scomp", S(f3), ["scomp", S(h3), S(k3)]]]), True
        yield sx(["law", bk, ["scomp", S(f3), ["sid", [0] * len(f3[1][0])]], S(f3)]), True
        yield sx(["law", bk, ["sdag", ["scomp", S(f3), S(h3)]], ["scomp", ["sdag", S(h3)], ["sdag", S(f3)]]]), True
    for f, h in small_pairs(g, N(tier, 600, 20000)):
        bk = g.r.choice(BACKENDS)
        _, tt = ohg_types(h)
        k = g.r.choice(_SMALL[1].get(tuple(tt), [None]))
        if k is not None:
            yield sx(["law", bk, ["scomp", ["scomp", S(f), S(h)], S(k)], ["scomp", S(f), ["scomp", S(h), S(k)]]]), True
        a, b = ohg_types(f)
        yield sx(["law", bk, ["scomp", ["sid", a], S(f)], S(f)]), True
        yield sx(["law", bk, ["scomp", S(f), ["sid", b]], S(f)]), True
        yield sx(["law", bk, ["sdag", ["scomp", S(f), S(h)]], ["scomp", ["sdag", S(h)], ["sdag", S(f)]]]), True
    for _ in range(N(tier, 250, 2500)):
        bk = g.r.choice(BACKENDS)
        f, h = composable(g)
        _, tt = ohg_types(h)
        k = g.ohg_with_source(tt)
        nt = len(f[2][3]) + len(h[2][3]) + len(k[2][3]) > 0 and len(f[1][0]) > 0
        yield sx(["law", bk, ["scomp", ["scomp", S(f), S(h)], S(k)], ["scomp", S(f), ["scomp", S(h), S(k)]]]), nt
        a, b = ohg_types(f)
        yield sx(["law", bk, ["scomp", ["sid", a], S(f)], S(f)]), nt
        yield sx(["law", bk, ["scomp", S(f), ["sid", b]], S(f)]), nt
        # interchange
        f2, h2 = composable(g)
        yield sx(["law", bk, ["scomp", ["stens", S(f), S(f2)], ["stens", S(h), S(h2)]],
                  ["stens", ["scomp", S(f), S(h)], ["scomp", S(f2), S(h2)]]]), nt
        # naturality of the symmetry
        p, q = g.ohg(), g.ohg()
        pa, pb = ohg_types(p)
        qa, qb = ohg_types(q)
        yield sx(["law", bk, ["scomp", ["stens", S(p), S(q)], ["stwist", pb, qb]],
                  ["scomp", ["stwist", pa, qa], ["stens", S(q), S(p)]]]), len(p[2][3]) + len(q[2][3]) > 0
        # a discrete middle operand with equal non-injective legs (merges wires; not an identity)
        _, ft = ohg_types(f)
        kk = len(ft)
        if kk:
            leg = [g.r.choice([j for j in range(kk) if ft[j] == ft[i]]) for i in range(kk)]
            sp = [[leg, kk], [leg, kk], [[[[], 1], [[], kk]], [[[], 1], [[], kk]], list(ft), []]]
            h3 = g.ohg_with_source([ft[i] for i in leg])
            yield sx(["law", bk, ["scomp", ["scomp", S(f), S(sp)], S(h3)], ["scomp", S(f), ["scomp", S(sp), S(h3)]]]), len(set(leg)) < kk
            yield sx(["law", bk, ["scomp", ["stens", S(f), S(f2)], ["stens", S(sp), S(h2)]],
                      ["stens", ["scomp", S(f), S(sp)], ["scomp", S(f2), S(h2)]]]), len(set(leg)) < kk
        # self-inverse and hexagons
        x, y, z = g.nats(g.size(3), 1), g.nats(g.size(3), 1), g.nats(g.size(3), 1)
        if g.r.random() < 0.04:
            # associativity with large boundaries (many identifications, order-dependent union-find shapes)
            n = g.r.choice([12, 16, 24])
            w = [0] * n
            disc = lambda s_, t_: [[s_, n], [t_, n], [[[[], 1], [[], n]], [[[], 1], [[], n]], w, []]]
            k1, k2 = g.r.randint(n, 2 * n), g.r.randint(n, 2 * n)
            a1, a2 = g.nats(k1, n - 1), g.nats(k1, n - 1)
            b1, b2 = g.nats(k2, n - 1), g.nats(k2, n - 1)
            F, G, H = disc(g.nats(2, n - 1), a1), disc(a2, b1), disc(b2, g.nats(2, n - 1))
            yield sx(["law", bk, ["scomp", ["scomp", S(F), S(G)], S(H)], ["scomp", S(F), ["scomp", S(G), S(H)]]]), True
        yield sx(["law", bk, ["scomp", ["stwist", x, y], ["stwist", y, x]], ["sid", x + y]]), len(x) > 0 and len(y) > 0
        yield sx(["law", bk, ["stwist", x, y + z],
                  ["scomp", ["stens", ["stwist", x, y], ["sid", z]], ["stens", ["sid", y], ["stwist", x, z]]]]), len(x) > 0 and len(y) + len(z) > 0
        yield sx(["law", bk, ["stwist", x + y, z],
                  ["scomp", ["stens", ["sid", x], ["stwist", y, z]], ["stens", ["stwist", x, z], ["sid", y]]]]), len(z) > 0 and len(y) + len(x) > 0


def C04(g, tier):
    S = lambda f: ["s", f]
    for _ in range(N(tier, 60, 600)):
        n1, n2 = g.r.randint(2, 12), g.r.randint(2, 12)
        k = g.r.randint(8, 30)
        a, b = long_legs(g, max(n1, n2), k)
        a = [x % n1 for x in a]
        b = [x % n2 for x in b]
        w1, w2 = [0] * n1, [0] * n2
        s1, t2 = g.ff(t=n1), g.ff(t=n2)
        bk = g.r.choice(BACKENDS)
        yield sx(["term", bk, ["scomp", ["sspider", s1, [a, n1], w1], ["sspider", [b, n2], t2, w2]]]), True
        yield sx(["term", "vec", ["to_strict", ["lcomp", ["lspider", s1, [a, n1], w1], ["lspider", [b, n2], t2, w2]]]]), True
        f5 = ["sspider", s1, [a, n1], w1]
        h5 = ["sspider", [b, n2], t2, w2]
        yield sx(["law", bk, ["sdag", ["scomp", f5, h5]], ["scomp", ["sdag", h5], ["sdag", f5]]]), True
    for _ in range(N(tier, 250, 2500)):
        bk = g.r.choice(BACKENDS)
        f, h = composable(g)
        nt = len(f[2][3]) + len(h[2][3]) > 0
        yield sx(["ohg_dagger", f]), nt
        yield sx(["law", bk, ["sdag", ["sdag", S(f)]], S(f)]), nt
        yield sx(["law", bk, ["sdag", ["scomp", S(f), S(h)]], ["scomp", ["sdag", S(h)], ["sdag", S(f)]]]), nt
        yield sx(["law", bk, ["sdag", ["stens", S(f), S(h)]], ["stens", ["sdag", S(f)], ["sdag", S(h)]]]), nt
        lf = g.lohg()
        yield sx(["lohg_dagger", lf]), True
        # spiders: accepted and rejected legs
        n = g.size()
        w = g.nats(n, 1)
        s = g.ff(t=n if g.r.random() < 0.85 else g.size())
        t = g.ff(t=n if g.r.random() < 0.85 else g.size())
        yield sx(["ohg_spider", s, t, w]), n > 0
        yield sx(["ohg_half_spider", s, w]), n > 0
        yield sx(["lohg_spider", s, t, w]), n > 0
        # fusion: (s,t,w);(s',t',w') with matching boundary types
        m = g.r.randint(1, 4)
        w2 = g.nats(m, 1)
        k = g.size(4)
        t1, s2 = [], []
        for _ in range(k):
            if not n:
                break
            i = g.r.randrange(n)
            c = [j for j in range(m) if w2[j] == w[i]]
            if not c:
                continue
            t1.append(i)
            s2.append(g.r.choice(c))
        s1 = g.ff(t=n)
        t2 = g.ff(t=m)
        yield sx(["term", bk, ["scomp", ["sspider", s1, [t1, n], w], ["sspider", [s2, m], t2, w2]]]), len(t1) >= 2
        yield sx(["term", "vec", ["to_strict", ["lcomp", ["lspider", s1, [t1, n], w], ["lspider", [s2, m], t2, w2]]]]), len(t1) >= 2
        a, b = g.nats(g.size(3), 1), g.nats(g.size(3), 1)
        n2 = len(a) + len(b)
        yield sx(["law", bk, ["sid", a], ["sspider", [list(range(len(a))), len(a)], [list(range(len(a))), len(a)], a]]), len(a) > 0
        yield sx(["law", bk, ["stwist", a, b],
                  ["sspider", [list(range(len(b), n2)) + list(range(len(b))), n2], [list(range(n2)), n2], b + a]]), n2 > 1


def break_ic(g, c):
    s, v = c
    k = g.r.random()
    if k < 0.25:
        return [[s[0], s[1] + 1], v]
    if k < 0.5:
        return [[mutate_list(g, s[0], 3), s[1]], v]
    if k < 0.75:
        return [s, [mutate_list(g, v[0], max(v[1] - 1, 0)), v[1]]]
    return [s, [v[0], v[1] + g.r.choice([1, 2])]]


def C05(g, tier):
    # the Var-forgetting functors are functor applications too: their images must be well formed and typed
    for _ in range(N(tier, 60, 600)):
        f = var_term(g)
        yield sx(["term", "vec", ["forget", ["l", f]]]), True
        yield sx(["term", "vec", ["forget_monogamous", ["l", f]]]), True
        ks, kt = g.r.choice([(0, 2), (2, 0), (1, 0), (0, 1), (3, 0), (0, 0), (1, 1), (2, 1)])
        nodes = [g.r.choice([1, 1, 2]) for _ in range(ks + kt)] + [1]
        one = [list(range(ks)), list(range(ks, ks + kt)),
               [nodes, [9, 3], [[list(range(ks)), list(range(ks, ks + kt))], [[ks + kt], []]], [[], []]]]
        yield sx(["term", "vec", ["forget", ["l", one]]]), True
        yield sx(["term", "vec", ["forget_monogamous", ["l", one]]]), True
    for _ in range(N(tier, 80, 800)):
        t3 = g.r.randint(1, 9)
        tab = [g.nat(t3 - 1) for _ in range(g.r.randint(9, 40))]
        if g.r.random() < 0.6:
            tab[g.r.choice([len(tab) - 1, len(tab) - 2, g.r.randrange(len(tab))])] = t3 + g.nat(2)
        yield sx(["ff_new", tab, t3]), True
        sizes = [g.r.choice([0, 1, 2, 3]) for _ in range(g.r.randint(9, 20))]
        vals = [g.nat(t3 - 1) for _ in range(sum(sizes))]
        if vals and g.r.random() < 0.5:
            vals[-1] = t3 + 1
        yield sx(["icf_from_semifinite", sizes, [vals, t3]]), True
    for _ in range(N(tier, 300, 3000)):
        f = g.ohg()
        s, t, h = f
        hs, ht, w, x = h
        k = g.r.random()
        if k < 0.5:
            pass
        elif k < 0.6:
            hs = break_ic(g, hs)
        elif k < 0.7:
            ht = break_ic(g, ht)
        elif k < 0.8:
            x = mutate_list(g, x, 3)
        elif k < 0.9:
            w = mutate_list(g, w, 1)
        else:
            s = [s[0], s[1] + 1]
        yield sx(["hg_new", hs, ht, w, x]), k >= 0.5
        yield sx(["ohg_new", s, t, [hs, ht, w, x]]), k >= 0.5
        # operations whose outputs get the deep well-formedness check
        n = g.size()
        a, b, xl = g.ics(nseg=n, labels=2), g.ics(nseg=n, labels=2), g.nats(n, 3)
        yield sx(["ohg_tensor_operations", [xl, a, b]]), n >= 1
        yield sx(["hg_tensor_operations", [xl, a, b]]), n >= 1
        yield sx(["ohg_singleton", g.nat(3), g.nats(g.size(3), 1), g.nats(g.size(3), 1)]), True
        yield sx(["ohg_identity", g.nats(g.size(), 1)]), True
        yield sx(["ohg_twist", g.nats(g.size(3), 1), g.nats(g.size(3), 1)]), True
        yield sx(["ohg_source", f]), True
        yield sx(["ohg_target", f]), True
        yield sx(["hg_discrete", g.nats(g.size(), 1)]), False
        yield sx(["hg_is_discrete", h]), False
        f1, h1 = composable(g)
        bk = g.r.choice(BACKENDS)
        yield sx(["term", bk, ["scomp", ["s", f1], ["s", h1]]]), True
        yield sx(["term", bk, ["stens", ["s", f1], ["sdag", ["s", h1]]]]), True
        lf = g.lohg(consistent=True)
        yield sx(["term", "vec", ["to_strict", ["l", lf]]]), True
        yield sx(["term", "vec", ["from_strict", ["s", f1]]]), True
        # functor and optic applications (deep well-formedness of the images is checked)
        if g.r.random() < 0.5:
            Fq = ftable(g)
            lq = g.lohg(maxar=2, ne=g.size(2), nn=g.size(3))
            yield sx(["term", "vec", ["lfmap", Fq, ["l", lq]]]), True
            yield sx(["term", "vec", ["lfmap_native", Fq, ["l", lq]]]), True
            Pq = otable(g)
            yield sx(["term", "vec", ["optic", Pq, ["l", lq]]]), True
            yield sx(["term", "vec", ["optic_adapted", Pq, ["l", lq]]]), True
        # imperative edits of lax diagrams (every reached state must stay well formed)
        if g.r.random() < 0.3:
            yield sx(["lax_history", LEMPTY if g.r.random() < 0.6 else g.lohg(), history(g, g.r.randint(3, 10))]), True
        # coequalize_vertices with a surjection
        nn = len(f[2][2])
        if nn:
            kk = g.r.randint(1, nn)
            q = list(range(kk)) + [g.r.randrange(kk) for _ in range(nn - kk)]
            g.r.shuffle(q)
            yield sx(["hg_coequalize_vertices", bk, f[2], [q, kk]]), kk < nn
    yield sx(["hg_empty"]), False


# --------------------------------------------------------------------------- lax
def history(g, n, allow_bad=True):
    """a builder history; tracks sizes to produce mostly-valid identifiers"""
    nn, ne = 0, 0
    cmds = []
    for _ in range(n):
        k = g.r.random()
        bad = allow_bad and g.r.random() < 0.04
        if k < 0.18:
            cmds.append(["new_node", g.nat(2)])
            nn += 1
        elif k < 0.30:
            a = g.nats(g.size(2), max(nn - 1, 0)) if nn else []
            b = g.nats(g.size(2), max(nn - 1, 0)) if nn else []
            cmds.append(["new_edge", g.nat(3), a, b])
            ne += 1
        elif k < 0.42:
            s, t = g.nats(g.size(2), 2), g.nats(g.size(2), 2)
            cmds.append(["new_operation", g.nat(3), s, t])
            nn += len(s) + len(t)
            ne += 1
        elif k < 0.56 and nn:
            cmds.append(["unify", g.nat(nn - 1), g.nat(nn - 1)])
        elif k < 0.63 and (ne or bad):
            cmds.append([g.r.choice(["add_edge_source", "add_edge_target"]), g.nat(ne if bad else ne - 1), g.nat(2)])
            nn += 1
        elif k < 0.73 and (nn or bad):
            ids = g.nats(g.r.randint(4, 8) if (g.big() and nn > 8) else g.size(3), nn if bad else nn - 1) if nn else ([0] if bad else [])
            if ids and g.r.random() < 0.35:
                ids = ids + [g.r.choice(ids)]          # a repeated identifier
            if nn and g.r.random() < 0.5:               # make sure interfaces are present when nodes are deleted
                cmds.append(["set_sources", g.nats(g.r.randint(1, 3), nn - 1)])
                cmds.append(["set_targets", g.nats(g.r.randint(1, 3), nn - 1)])
            which = g.r.choice(["delete_nodes", "delete_nodes", "h_delete_nodes_witness", "h_delete_nodes"])
            cmds.append([which, ids])
            if not (ids and max(ids) >= nn):
                nn -= len(set(ids))
        elif k < 0.81 and (ne or bad):
            ids = g.nats(g.size(3), ne if bad else ne - 1) if ne else ([0] if bad else [])
            cmds.append(["delete_edges", ids])
            if not (ids and max(ids) >= ne):
                ne -= len(set(ids))
        elif k < 0.85:
            cmds.append([g.r.choice(["map_nodes", "map_edges"]), g.nat(2)])
        elif k < 0.88:
            cmds.append(["with_nodes", g.nats(nn if g.r.random() < 0.7 else g.size(), 2)])
        elif k < 0.90:
            cmds.append(["with_edges", g.nats(ne if g.r.random() < 0.7 else g.size(), 3)])
        elif k < 0.94 and nn:
            cmds.append([g.r.choice(["set_sources", "set_targets"]), g.nats(g.size(3), nn - 1)])
        elif k < 0.97:
            cmds.append([g.r.choice(["quotient", "h_quotient"])])
        else:
            cmds.append(["delete_nodes", []])
    return cmds


LEMPTY = [[], [], [[], [], [], [[], []]]]


def unit_labels(f, cs=None):
    """the same diagram / history with every node and edge label 0 (run by the harness at zero-sized label types)"""
    z = lambda l: [0] * len(l)
    f2 = [list(f[0]), list(f[1]), [z(f[2][0]), z(f[2][1]), f[2][2], f[2][3]]]
    if cs is None:
        return f2
    out = []
    for c in cs:
        k = c[0]
        if k == "new_node":
            out.append([k, 0])
        elif k == "new_edge":
            out.append([k, 0, c[2], c[3]])
        elif k == "new_operation":
            out.append([k, 0, z(c[2]), z(c[3])])
        elif k in ("add_edge_source", "add_edge_target"):
            out.append([k, c[1], 0])
        elif k in ("map_nodes", "map_edges"):
            out.append([k, 0])
        elif k in ("with_nodes", "with_edges"):
            out.append([k, z(c[1])])
        else:
            out.append(c)
    return f2, out


def label_type_variants(g, f, cs, nt):
    """the crate is generic in its labels: the same history at a label type wider than a word and at a zero-sized one"""
    r = g.r.random()
    if r < 0.25:
        yield sx(["lax_history_wide", f, cs]), nt
    elif r < 0.5:
        f2, cs2 = unit_labels(f, cs)
        yield sx(["lax_history_unit", f2, cs2]), nt


def all_small_histories(maxlen):
    alphabet = [["new_node", 0], ["new_node", 1], ["new_operation", 0, [0], [1]], ["new_edge", 1, [0], [0, 1]],
                ["unify", 0, 1], ["unify", 1, 2], ["delete_nodes", [0]], ["delete_nodes", [1, 1]],
                ["delete_nodes", [2]], ["delete_edges", [0]], ["delete_edges", [1]], ["add_edge_source", 0, 1],
                ["add_edge_target", 0, 0], ["quotient"], ["set_sources", [0, 1]], ["h_delete_nodes_witness", [0, 2]]]
    for n in range(1, maxlen + 1):
        for cs in itertools.product(alphabet, repeat=n):
            yield list(cs)


def C11(g, tier):
    if tier in ("thorough", "escalated"):
        for cs in all_small_histories(3):
            yield sx(["lax_history", LEMPTY, cs]), any(c[0].startswith("delete") or c[0].startswith("h_delete") for c in cs)
    else:
        for cs in all_small_histories(2):
            yield sx(["lax_history", LEMPTY, cs]), any(c[0].startswith("delete") or c[0].startswith("h_delete") for c in cs)
    for _ in range(N(tier, 500, 5000)):
        cs = history(g, g.r.randint(15, 40) if g.big() else g.r.randint(3, 14))
        start = LEMPTY if g.r.random() < 0.7 else g.lohg()
        names = [c[0] for c in cs]
        nt = any(n.startswith("delete") or n.startswith("h_delete") for n in names) and "unify" in names
        yield sx(["lax_history", start, cs]), nt
        yield from label_type_variants(g, start, cs, nt)
    for _ in range(N(tier, 200, 2000)):
        f = g.lohg(consistent=False)
        yield sx(["lax_json", f]), len(f[2][0]) > 0 and len(f[2][1]) > 0


def C09(g, tier):
    for s2, t2, n2 in deep_cc_cases(g, N(tier, 8, 80)):
        lab = g.r.choice([1, 1, 2])
        nodes = [0] * n2 if lab == 1 else [g.nat(1) for _ in range(n2)]
        f = [[0, n2 - 1], [n2 // 2], [nodes, [0], [[[0, 1], [n2 - 1]]], [s2, t2]]]
        yield sx(["lohg_quotient", f]), True
        yield sx(["lhg_quotient", f[2]]), True
    for _ in range(N(tier, 500, 5000)):
        consistent = g.r.random() < 0.7
        f = g.lohg(consistent=consistent, labels=g.r.choice([1, 2, 3]))
        nq = len(f[2][3][0])
        yield sx(["lohg_quotient", f]), nq >= 2
        yield sx(["lhg_quotient", f[2]]), nq >= 2
        yield sx(["lhg_coequalizer", f[2]]), nq >= 2
        yield sx(["lhg_is_strict", f[2]]), False
        # interleaved unify / quotient histories
        n = len(f[2][0])
        cs = []
        for _ in range(g.r.randint(2, 8)):
            if n and g.r.random() < 0.6:
                cs.append(["unify", g.nat(n - 1), g.nat(n - 1)])
            else:
                cs.append([g.r.choice(["quotient", "quotient", "h_quotient"])])
        cs.append(["quotient"])
        cs.append(["quotient"])
        yield sx(["lax_history", f, cs]), True
        yield from label_type_variants(g, f, cs, True)
        r = g.r.random()
        if r < 0.3:
            yield sx(["lohg_quotient_wide", f]), nq >= 2
            yield sx(["lhg_quotient_wide", f[2]]), nq >= 2
            yield sx(["lhg_coequalizer_wide", f[2]]), nq >= 2
            yield sx(["lhg_is_strict_wide", f[2]]), False
        elif r < 0.5:
            fu = unit_labels(f)
            yield sx(["lohg_quotient_unit", fu]), nq >= 2
            yield sx(["lhg_quotient_unit", fu[2]]), nq >= 2


def lcomposable(g, **kw):
    f = g.lohg(**kw)
    _, tt = lohg_types(f)
    h = g.lohg(ni=0, **kw)
    src = []
    for ty in tt:
        c = [i for i, l in enumerate(h[2][0]) if l == ty]
        if c and g.r.random() < 0.6:
            src.append(g.r.choice(c))
        else:
            h[2][0].append(ty)
            src.append(len(h[2][0]) - 1)
    h[0] = src
    return f, h


def C10(g, tier):
    S = lambda f: ["s", f]
    Lx = lambda f: ["l", f]
    for _ in range(N(tier, 300, 3000)):
        f = g.ohg()
        yield sx(["law", "vec", ["to_strict", ["from_strict", S(f)]], S(f)]), len(f[2][3]) > 0
        yield sx(["lohg_from_strict", f]), len(f[2][3]) > 0
        yield sx(["lhg_from_strict", f[2]]), len(f[2][3]) > 0
        l0 = g.lohg(nq=0)
        yield sx(["law", "vec", ["from_strict", ["to_strict", Lx(l0)]], Lx(l0)]), len(l0[2][1]) > 0
        yield sx(["lohg_to_strict", l0]), len(l0[2][1]) > 0
        yield sx(["lhg_to_hypergraph", l0[2]]), len(l0[2][1]) > 0
        lf, lh = lcomposable(g)
        if g.r.random() < 0.15:
            lh = g.lohg()
        nt = len(lf[2][3][0]) + len(lh[2][3][0]) > 0 and len(lf[1]) > 0
        yield sx(["lohg_compose", lf, lh]), nt
        yield sx(["lohg_lax_compose", lf, lh]), nt
        yield sx(["lohg_source", lf]), False
        yield sx(["lohg_target", lf]), False
        yield sx(["law", "vec", ["to_strict", ["lcomp", Lx(lf), Lx(lh)]],
                  ["scomp", ["to_strict", Lx(lf)], ["to_strict", Lx(lh)]]]), nt
        yield sx(["law", "vec", ["to_strict", ["ltens", Lx(lf), Lx(lh)]],
                  ["stens", ["to_strict", Lx(lf)], ["to_strict", Lx(lh)]]]), nt
        yield sx(["law", "vec", ["to_strict", ["ldag", Lx(lf)]], ["sdag", ["to_strict", Lx(lf)]]]), nt
        a, b = g.nats(g.size(3), 1), g.nats(g.size(3), 1)
        yield sx(["law", "vec", ["to_strict", ["lid", a]], ["sid", a]]), len(a) > 0
        yield sx(["law", "vec", ["to_strict", ["ltwist", a, b]], ["stwist", a, b]]), len(a) + len(b) > 1
        yield sx(["lohg_twist", a, b]), False
        yield sx(["lohg_identity", a]), False
        x = g.nat(3)
        yield sx(["law", "vec", ["to_strict", ["lsingleton", x, a, b]], ["ssingleton", x, a, b]]), True
        yield sx(["lohg_singleton", x, a, b]), False
        n = g.size()
        w = g.nats(n, 1)
        s, t = g.ff(t=n), g.ff(t=n)
        yield sx(["law", "vec", ["to_strict", ["lspider", s, t, w]], ["sspider", s, t, w]]), n > 0
        yield sx(["lohg_half_spider", s, w]), n > 0
        yield sx(["law", "vec", ["to_strict", ["lspider", s, [list(range(n)), n], w]], ["sspider", s, [list(range(n)), n], w]]), n > 0
        # in-place forms
        yield sx(["lohg_tensor", lf, lh]), nt
        yield sx(["lohg_tensor_assign", lf, lh]), nt
        yield sx(["lohg_append", lf, lh]), nt
        yield sx(["lhg_coproduct", lf[2], lh[2]]), nt
        yield sx(["lhg_coproduct_assign", lf[2], lh[2]]), nt


# --------------------------------------------------------------------------- functors
def ftable(g, labels=3, elabels=3):
    if g.big():
        labels = 5
    obj = [g.nats(g.r.choice([0, 1, 1, 2, 3, 4, 5] if g.big() else [0, 1, 1, 2, 3]), 2) for _ in range(labels)]
    kind = [g.r.choice([0, 0, 1, 2, 3, 4, 4]) for _ in range(elabels)]
    return [obj, kind, g.r.choice([0, 3])]


def free_image(F, f):
    """object image fw (segmented array) and a typed operation image fx (one free operation per hyperedge,
    fresh nodes) for the object table F[0] and the open hypergraph f"""
    s, t, h = f
    w = h[2]
    imgs = [list(F[0][o]) if o < len(F[0]) else [o] for o in w]
    fw = [[[len(i) for i in imgs], sum(len(i) for i in imgs) + 1], [x for i in imgs for x in i]]
    def lists(ic):
        out, k = [], 0
        for n in ic[0][0]:
            out.append(ic[1][0][k:k + n])
            k += n
        return out
    ss, tt = lists(h[0]), lists(h[1])
    nodes, es, et = [], [], []
    for a, b in zip(ss, tt):
        ea, eb = [], []
        for v in a:
            for x in imgs[v]:
                ea.append(len(nodes)); nodes.append(x)
        for v in b:
            for x in imgs[v]:
                eb.append(len(nodes)); nodes.append(x)
        es.append(ea); et.append(eb)
    n = len(nodes)
    mk = lambda ll: [[[len(l) for l in ll], sum(len(l) for l in ll) + 1], [[v for l in ll for v in l], n]]
    fx = [[[v for l in es for v in l], n], [[v for l in et for v in l], n], [mk(es), mk(et), nodes, [10 + x for x in h[3]]]]
    return fw, fx


def C12(g, tier):
    S = lambda f: ["s", f]
    Lx = lambda f: ["l", f]
    for _ in range(N(tier, 100, 1000)):
        F = ftable(g)
        f = g.ohg(maxar=2, labels=3)
        fw, fx = free_image(F, f)
        bk = g.r.choice(BACKENDS)
        nt = any(len(o) != 1 for o in F[0]) and len(f[2][3]) > 0
        yield sx(["f_spider_map_arrow", bk, f, fw, fx]), nt
        yield sx(["f_to_operations", bk, f]), len(f[2][3]) > 0
        leg = g.r.choice([f[0], f[1], f[2][0][1], f[2][1][1]])
        yield sx(["f_map_half_spider", bk, fw, leg]), len(leg[0]) > 0
        if g.r.random() < 0.15:   # a leg over the wrong number of nodes: same refusal / panic
            yield sx(["f_map_half_spider", bk, fw, g.ff()]), True
    for _ in range(N(tier, 300, 3000)):
        F = ftable(g)
        f = g.ohg(maxar=2, labels=3)
        nt = any(len(o) != 1 for o in F[0]) and len(f[2][3]) > 0
        bk = g.r.choice(BACKENDS)
        yield sx(["term", bk, ["sfmap_id", S(f)]]), len(f[2][3]) > 0
        yield sx(["term", "vec", ["sfmap", F, S(f)]]), nt
        lf = g.lohg(maxar=2, labels=3)
        yield sx(["term", "vec", ["lfmap", F, Lx(lf)]]), nt
        yield sx(["term", "vec", ["lfmap_id", Lx(lf)]]), len(lf[2][1]) > 0
        # preservation laws (both sides through the Rust API)
        f1, h1 = composable(g, maxar=2, labels=3)
        yield sx(["law", "vec", ["sfmap", F, ["scomp", S(f1), S(h1)]], ["scomp", ["sfmap", F, S(f1)], ["sfmap", F, S(h1)]]]), nt
        yield sx(["law", "vec", ["sfmap", F, ["stens", S(f1), S(h1)]], ["stens", ["sfmap", F, S(f1)], ["sfmap", F, S(h1)]]]), nt
        yield sx(["law", "vec", ["sfmap", F, ["sdag", S(f1)]], ["sdag", ["sfmap", F, S(f1)]]]), nt
        a, b = g.nats(g.size(3), 2), g.nats(g.size(3), 2)
        Fa = [x for o in a for x in F[0][o]]
        Fb = [x for o in b for x in F[0][o]]
        yield sx(["law", "vec", ["sfmap", F, ["sid", a]], ["sid", Fa]]), len(a) > 0
        yield sx(["law", "vec", ["sfmap", F, ["stwist", a, b]], ["stwist", Fa, Fb]]), len(a) + len(b) > 1
        yield sx(["law", bk, ["sfmap_id", S(f)], S(f)]), len(f[2][3]) > 0


def C13(g, tier):
    Lx = lambda f: ["l", f]
    for _ in range(N(tier, 400, 4000)):
        F = ftable(g)
        lf = g.lohg(nq=0 if g.r.random() < 0.8 else None, maxar=2, labels=3)
        nt = any(len(o) != 1 for o in F[0]) and len(lf[2][1]) > 0
        yield sx(["term", "vec", ["lfmap_native", F, Lx(lf)]]), nt
        yield sx(["map_arrow_witness", F, lf]), nt
        if not lf[2][3][0]:   # the agreement clause quantifies over quotient-free diagrams
            yield sx(["law", "vec", ["to_strict", ["lfmap_native", F, Lx(lf)]], ["to_strict", ["lfmap", F, Lx(lf)]]]), nt


def otable(g, labels=2, elabels=3):
    hi = [0, 1, 2, 3, 4] if g.big() else [0, 1, 1, 2]
    fobj = [g.nats(g.r.choice(hi), 2) for _ in range(labels)]
    robj = [g.nats(g.r.choice(hi), 2) for _ in range(labels)]
    res = [g.nats(g.r.choice([0, 0, 1, 2] + ([3, 4] if g.big() else [])), 2) for _ in range(elabels)]
    kind = [g.r.choice([0, 0, 0, 2]) for _ in range(elabels)]
    return [fobj, robj, res, kind]


def circuit(g, nin, nops):
    """a monogamous acyclic polynomial circuit as a lax diagram (no pending unifications):
    every wire has exactly one producer (input or op output) and one consumer (op input or output)."""
    nodes = 0
    free = []  # produced, not yet consumed
    edges, adj = [], []
    ins = []
    for _ in range(nin):
        ins.append(nodes)
        free.append(nodes)
        nodes += 1
    for _ in range(nops):
        choices = ["const"]
        if len(free) >= 1:
            choices += ["neg", "copy", "copy", "discard"]
        if len(free) >= 2:
            choices += ["add", "mul", "mul", "add"]
        op = g.r.choice(choices)
        ar = {"const": 0, "neg": 1, "copy": 1, "discard": 1, "add": 2, "mul": 2}[op]
        co = {"const": 1, "neg": 1, "copy": 2, "discard": 0, "add": 1, "mul": 1}[op]
        srcs = []
        for _ in range(ar):
            srcs.append(free.pop(g.r.randrange(len(free))))
        tg = list(range(nodes, nodes + co))
        nodes += co
        free += tg
        lab = {"add": 0, "mul": 1, "neg": 2, "copy": 3, "discard": 4}.get(op)
        if lab is None:
            lab = 10 + g.nat(5)
        edges.append(lab)
        adj.append([srcs, tg])
    g.r.shuffle(free)
    outs = free
    # shuffle edge order
    order = list(range(len(edges)))
    g.r.shuffle(order)
    edges = [edges[i] for i in order]
    adj = [adj[i] for i in order]
    return [ins, outs, [[0] * nodes, edges, adj, [[], []]]]


def C14(g, tier):
    Lx = lambda f: ["l", f]
    # internal steps of the optic construction (verif-hooks): block interleaving and the partial dagger
    for _ in range(N(tier, 60, 600)):
        bk = g.r.choice(BACKENDS)
        k = g.size(4)
        a, b = g.ics(nseg=k), g.ics(nseg=k if g.r.random() < 0.9 else k + 1)
        yield sx(["f_interleave_blocks", bk, a, b]), k >= 2
        fa, fb, ra, rb = (g.ics(nseg=g.size(3)) for _ in range(4))
        n_s = len(fa[1]) + len(rb[1])
        n_t = len(fb[1]) + len(ra[1])
        if g.r.random() < 0.1:
            n_s += 1
        c = g.ohg(ni=n_s, no=n_t, nn=g.r.randint(1, 6))
        yield sx(["f_partial_dagger", bk, c, fa, fb, ra, rb]), n_s + n_t >= 2
    for _ in range(N(tier, 150, 1500)):
        P = otable(g)
        lf = g.lohg(maxar=2, ne=g.size(2), nn=g.size(3))
        nt = len(lf[2][1]) > 0
        yield sx(["term", "vec", ["optic", P, Lx(lf)]]), nt
        yield sx(["term", "vec", ["optic_adapted", P, Lx(lf)]]), nt
    for _ in range(N(tier, 200, 2000)):
        c = circuit(g, g.r.randint(0, 3), g.r.randint(7, 18) if g.big() else g.r.randint(1, 6))
        nin, nout = len(c[0]), len(c[1])
        labs = c[2][1]
        nt = 1 in labs and 3 in labs
        yield sx(["term", "vec", ["optic_adapted", "poly", Lx(c)]]), nt
        inp = [Z(g.r.choice([0, 1, 2, 3, g.r.getrandbits(64)])) for _ in range(nin + nout)]
        bk = g.r.choice(BACKENDS)
        yield sx(["term_eval", bk, ["optic_adapted", "poly", Lx(c)], inp]), nt
        yield sx(["term_eval", bk, Lx(c), inp[:nin]]), nt


# --------------------------------------------------------------------------- graph algorithms
def dag_ohg(g, nops, cyclic=False, mult=1):
    """operations wired through fresh nodes; optional back edges and multiplicities"""
    nodes = 0
    ss, tt = [], []
    produced = []
    for i in range(nops):
        ar = g.r.randint(0, 2)
        srcs = []
        for _ in range(ar):
            if produced and g.r.random() < 0.8:
                v = g.r.choice(produced)
                srcs += [v] * g.r.randint(1, mult)
            else:
                srcs.append(nodes)
                nodes += 1
        co = g.r.randint(0, 2)
        tg = list(range(nodes, nodes + co))
        nodes += co
        produced += tg
        ss.append(srcs)
        tt.append(tg)
    for srcs in ss:
        if len(srcs) > 2 and g.r.random() < 0.6:
            g.r.shuffle(srcs)          # repeated uses of one node need not be adjacent
    if cyclic and nops:
        for _ in range(g.r.randint(1, 2)):
            i = g.r.randrange(nops)
            j = g.r.randrange(i, nops)
            if tt[j]:
                ss[i].append(g.r.choice(tt[j]))
            elif nodes:
                v = g.r.randrange(nodes)
                ss[i].append(v)
                tt[j].append(v)
    # shuffle operations
    order = list(range(nops))
    g.r.shuffle(order)
    ss = [ss[i] for i in order]
    tt = [tt[i] for i in order]
    mk = lambda ll: [[[len(l) for l in ll], sum(len(l) for l in ll) + 1], [[v for l in ll for v in l], nodes]]
    h = [mk(ss), mk(tt), [0] * nodes, g.nats(nops, 3)]
    ni, no = (g.size(3), g.size(3)) if nodes else (0, 0)
    return [[g.nats(ni, nodes - 1), nodes], [g.nats(no, nodes - 1), nodes], h]


def fanout_ohg(g):
    """one producer whose outputs are consumed by several operations in interleaved order"""
    k = g.r.randint(2, 3)
    cons = g.r.randint(2, 4)
    nodes = k
    ss, tt = [[]], [list(range(k))]
    for _ in range(cons):
        srcs = [g.r.randrange(k) for _ in range(g.r.randint(1, 3))]
        co = g.r.randint(0, 1)
        ss.append(srcs)
        tt.append(list(range(nodes, nodes + co)))
        nodes += co
    # a sink reading produced values
    ss.append([g.r.randrange(nodes)])
    tt.append([])
    order = list(range(len(ss)))
    if g.r.random() < 0.5:
        g.r.shuffle(order)
    ss = [ss[i] for i in order]
    tt = [tt[i] for i in order]
    mk = lambda ll: [[[len(l) for l in ll], sum(len(l) for l in ll) + 1], [[v for l in ll for v in l], nodes]]
    return [[[], nodes], [[], nodes], [mk(ss), mk(tt), [0] * nodes, g.nats(len(ss), 3)]]


def C15(g, tier):
    for _ in range(N(tier, 300, 3000)):
        f = fanout_ohg(g)
        for bk in BACKENDS:
            yield sx(["layer", bk, f]), True
            yield sx(["layered_operations", bk, f]), True
    for _ in range(N(tier, 500, 5000)):
        k = g.r.random()
        if k < 0.4:
            f = dag_ohg(g, g.r.randint(8, 20) if g.big() else g.size(6), mult=g.r.choice([1, 1, 3, 6]))
        elif k < 0.75:
            f = dag_ohg(g, g.r.randint(7, 16) if g.big() else g.r.randint(1, 6), cyclic=True, mult=g.r.choice([1, 2, 4]))
        else:
            f = g.ohg(maxar=2)
        nt = len(f[2][3]) >= 3
        for bk in BACKENDS:
            yield sx(["layer", bk, f]), nt
            yield sx(["layered_operations", bk, f]), nt
            yield sx(["g_operation_adjacency", bk, f[2]]), nt
        bk = g.r.choice(BACKENDS)
        c = g.icf()
        yield sx(["g_converse", bk, c]), len(c[0][0]) >= 2
        n = g.size(5)
        adj = g.icf(nseg=n, tgt=n) if n else [[[], 1], [[], 0]]
        yield sx(["g_kahn", bk, adj]), n >= 3
        yield sx(["g_indegree", adj]), n >= 3
        # internal steps of Kahn's algorithm (verif-hooks): indegree relative to a frontier, filter
        fr = g.ff(t=n) if n else [[], 0]
        if g.r.random() < 0.1:
            fr = g.ff()           # frontier over the wrong number of nodes: must panic alike
        yield sx(["g_dense_relative_indegree", adj, fr]), n >= 3
        yield sx(["g_sparse_relative_indegree", bk, adj, fr]), n >= 3
        k2 = g.size(5)
        pred = [g.r.choice([0, 1, 1, 2]) if g.r.random() < 0.2 else g.r.choice([0, 1]) for _ in range(k2)]
        vals = g.nats(k2 if g.r.random() < 0.9 else k2 + 1, 5)
        yield sx(["g_filter", bk, vals, pred]), k2 >= 2


def single_writer_circuit(g, wide=0):
    """acyclic, every node written at most once; fan-out through shared nodes allowed;
    wide = number of leading operations that read the inputs only (one wide first layer)"""
    nodes = 0
    written = []
    edges, ss, tt = [], [], []
    nin = g.r.randint(0, 3) if not wide else g.r.randint(1, 4)
    ins = list(range(nin))
    nodes = nin
    written = list(ins)
    # now and then some wires nobody writes (they hold the default value) that may be read or output
    if g.r.random() < 0.25:
        nd = g.r.randint(1, 3)
        written += list(range(nodes, nodes + nd))
        nodes += nd
        if g.r.random() < 0.5:      # not all of them at the end of the node list
            pass
    nops = g.r.randint(8, 25) if g.big() else g.r.randint(1, 7)
    if not wide and g.r.random() < 0.06:
        nops = 0                    # a pure wiring: no operation at all
    if wide:
        nops = wide + g.r.randint(0, 4)
    for k in range(nops):
        lab = g.r.choice([0, 1, 2, 3, 4, 5, 6, 7, 8, 10 + g.nat(5)])
        co = len({0: [0], 1: [0], 2: [0], 3: [0, 0], 4: [], 5: [0], 6: [0], 7: [0], 8: [0, 0, 0]}.get(lab, [0]))
        ar = 0 if lab >= 10 else g.r.randint(0, 3)
        pool = ins if k < wide else written
        srcs = [g.r.choice(pool) for _ in range(ar)] if pool else []
        tg = list(range(nodes, nodes + co))
        nodes += co
        written += tg
        edges.append(lab)
        ss.append(srcs)
        tt.append(tg)
    # renumber nodes and edges randomly (same diagram, different numbering)
    outs = [g.r.choice(written) for _ in range(g.r.randint(0, 3))] if written else []
    return nodes, ins, outs, edges, ss, tt


def encode_circuit(nodes, ins, outs, edges, ss, tt, perm=None, eperm=None):
    perm = perm or list(range(nodes))
    eperm = eperm or list(range(len(edges)))
    p = lambda l: [perm[v] for v in l]
    ss2 = [p(ss[i]) for i in eperm]
    tt2 = [p(tt[i]) for i in eperm]
    ed = [edges[i] for i in eperm]
    mk = lambda ll: [[[len(l) for l in ll], sum(len(l) for l in ll) + 1], [[v for l in ll for v in l], nodes]]
    return [[p(ins), nodes], [p(outs), nodes], [mk(ss2), mk(tt2), [0] * nodes, ed]]


def C16(g, tier):
    for _ in range(N(tier, 500, 5000)):
        c = single_writer_circuit(g)
        nodes, ins, outs, edges, ss, tt = c
        inp = [Z(g.r.choice([0, 1, 2, g.r.getrandbits(64)])) for _ in ins]
        f = encode_circuit(*c)
        perm = list(range(nodes))
        g.r.shuffle(perm)
        eperm = list(range(len(edges)))
        g.r.shuffle(eperm)
        f2 = encode_circuit(*c, perm=perm, eperm=eperm)
        depth_nt = len(edges) >= 2
        for bk in BACKENDS:
            yield sx(["eval", bk, f, inp]), depth_nt
            yield sx(["eval", bk, f2, inp]), depth_nt
        if g.r.random() < 0.3:
            cy = dag_ohg(g, g.r.randint(1, 5), cyclic=True)
            yield sx(["eval", g.r.choice(BACKENDS), cy, [Z(1)] * len(cy[0][0])]), True


def C17(g, tier):
    for _ in range(N(tier, 500, 5000)):
        k = g.r.random()
        if k < 0.35:
            f = g.ohg(maxar=2)
        elif k < 0.6:
            f = dag_ohg(g, g.r.randint(8, 18) if g.big() else g.size(5), cyclic=g.r.random() < 0.5, mult=g.r.choice([1, 3, 6]))
        else:
            # (nearly) monogamous: start from a circuit
            c = circuit(g, g.r.randint(0, 3), g.r.randint(6, 15) if g.big() else g.r.randint(0, 5))
            lh = c[2]
            n = len(lh[0])
            mk = lambda ll: [[[len(l) for l in ll], sum(len(l) for l in ll) + 1], [[v for l in ll for v in l], n]]
            f = [[c[0], n], [c[1], n], [mk([a[0] for a in lh[2]]), mk([a[1] for a in lh[2]]), lh[0], lh[1]]]
            if g.r.random() < 0.4 and n:
                # perturb: an isolated node, a dangling node, or a repeated interface entry
                kk = g.r.random()
                if kk < 0.4:
                    f[2][2] = f[2][2] + [0]
                    for side in (f[0], f[1], f[2][0][1], f[2][1][1]):
                        side[1] += 1
                elif kk < 0.7 and f[0][0]:
                    f[0][0] = f[0][0] + [f[0][0][0]]
                elif f[1][0]:
                    f[1][0] = f[1][0][:-1]
        n = len(f[2][2])
        for bk in BACKENDS:
            yield sx(["ohg_is_acyclic", bk, f]), n >= 2
            yield sx(["hg_is_acyclic", bk, f[2]]), n >= 2
        yield sx(["ohg_is_monogamous", f]), n >= 2
        for v in range(n + 1):
            yield sx(["hg_in_degree", f[2], v]), n >= 2
            yield sx(["hg_out_degree", f[2], v]), n >= 2


def C18(g, tier):
    for _ in range(N(tier, 500, 5000)):
        hgt = g.hg(nn=g.r.randint(8, 14), ne=g.r.randint(5, 12), maxar=2) if g.big() else g.hg(nn=g.r.randint(1, 6), ne=g.size(5), maxar=2)
        nn, ne = len(hgt[2]), len(hgt[3])
        # a sub-hypergraph: choose edges, then nodes containing their incidences
        seg = lambda c, i: c[1][0][sum(c[0][0][:i]):sum(c[0][0][: i + 1])]
        esel = [i for i in range(ne) if g.r.random() < 0.5]
        g.r.shuffle(esel)
        need = set()
        for e in esel:
            need |= set(seg(hgt[0], e)) | set(seg(hgt[1], e))
        nsel = sorted(need | {v for v in range(nn) if g.r.random() < 0.3})
        g.r.shuffle(nsel)
        pos = {v: i for i, v in enumerate(nsel)}
        mk = lambda ll: [[[len(l) for l in ll], sum(len(l) for l in ll) + 1], [[v for l in ll for v in l], len(nsel)]]
        src = [mk([[pos[v] for v in seg(hgt[0], e)] for e in esel]), mk([[pos[v] for v in seg(hgt[1], e)] for e in esel]),
               [hgt[2][v] for v in nsel], [hgt[3][e] for e in esel]]
        w = [nsel, nn]
        x = [esel, ne]
        nt = len(esel) < ne and len(nsel) >= 2
        m = [src, hgt, w, x]
        bk = g.r.choice(BACKENDS)
        yield sx(["arrow_new", m]), nt
        yield sx(["arrow_is_monomorphism", m]), nt
        for b in BACKENDS:
            yield sx(["arrow_is_convex_subgraph", b, m]), nt
        # singly broken arrows
        k = g.r.random()
        src2, w2, x2 = src, w, x
        if k < 0.2 and nsel:
            w2 = [mutate_list(g, nsel, nn - 1), nn]
        elif k < 0.4 and ne:
            x2 = [mutate_list(g, esel, ne - 1), ne]
        elif k < 0.55:
            w2 = [nsel, nn + 1]
        elif k < 0.7:
            x2 = [esel, ne + 1]
        elif k < 0.85 and src[2]:
            src2 = [src[0], src[1], mutate_list(g, src[2], 1), src[3]]
            if len(src2[2]) != len(src[2]):
                src2 = src
        elif src[3]:
            lab = list(src[3])
            lab[g.r.randrange(len(lab))] = g.nat(3)
            src2 = [src[0], src[1], src[2], lab]
        m2 = [src2, hgt, w2, x2]
        yield sx(["arrow_new", m2]), True
        # an edge whose ordered source / target list is a non-trivial permutation of its image's
        for side in (0, 1):
            szs = src[side][0][0]
            vals = list(src[side][1][0])
            offs = [sum(szs[:i]) for i in range(len(szs))]
            cands = [i for i in range(len(szs)) if len(set(vals[offs[i]:offs[i] + szs[i]])) >= 2]
            if cands:
                i = g.r.choice(cands)
                seg = vals[offs[i]:offs[i] + szs[i]]
                perm = list(seg)
                while perm == seg:
                    g.r.shuffle(perm)
                vals[offs[i]:offs[i] + szs[i]] = perm
                src4 = list(src)
                src4[side] = [src[side][0], [vals, src[side][1][1]]]
                yield sx(["arrow_new", [src4, hgt, w, x]]), True
        # same flattened incidence, different segmentation: move one entry to the neighbouring edge
        for side in (0, 1):
            sz = list(src[side][0][0])
            cand = [i for i in range(len(sz) - 1) if sz[i] >= 1] + [-(i + 1) for i in range(len(sz) - 1) if sz[i + 1] >= 1]
            if cand:
                c = g.r.choice(cand)
                if c >= 0:
                    sz[c] -= 1
                    sz[c + 1] += 1
                else:
                    i = -c - 1
                    sz[i + 1] -= 1
                    sz[i] += 1
                src3 = list(src)
                src3[side] = [[sz, src[side][0][1]], src[side][1]]
                yield sx(["arrow_new", [src3, hgt, w, x]]), True
        yield sx(["arrow_is_monomorphism", m2]), True
        # non-injective maps between arbitrary graphs
        h1 = g.hg(maxar=2)
        w3 = g.ff(n=len(h1[2]), t=nn)
        x3 = g.ff(n=len(h1[3]), t=ne) if ne else [[], 0]
        yield sx(["arrow_new", [h1, hgt, w3, x3]]), True
        yield sx(["arrow_is_convex_subgraph", bk, [h1, hgt, w3, x3]]), False


# --------------------------------------------------------------------------- var / forget
def var_program(g, evaluable=False):
    cmds = []
    nv = 0
    labels = []
    fresh = []
    for _ in range(g.r.randint(1, 3)):
        l = g.nat(1) + 1
        cmds.append(["new", l])
        labels.append(l)
        fresh.append(nv)
        nv += 1
    for _ in range(g.r.randint(7, 16) if g.big() else g.r.randint(0, 6)):
        k = g.r.random()
        if k < 0.15:
            l = g.nat(1) + 1
            cmds.append(["new", l])
            labels.append(l)
            fresh.append(nv)
            nv += 1
        elif k < 0.6:
            op = g.r.choice([0, 1, 5, 6] if evaluable else [0, 1, 22, 23, 5, 6, 28, 29, 30])
            a, b = g.nat(nv - 1), g.nat(nv - 1)
            cmds.append(["apply", op, [a, b], [labels[a]]])
            labels.append(labels[a])
            nv += 1
        elif k < 0.75:
            op = g.r.choice([2, 7])
            a = g.nat(nv - 1)
            cmds.append(["apply", op, [a], [labels[a]]])
            labels.append(labels[a])
            nv += 1
        else:
            if evaluable:
                op = g.r.choice([3, 4, 8, 0, 12])
                coar = {3: 2, 4: 0, 8: 3, 0: 1, 12: 1}[op]
                args = [] if op == 12 else g.nats(g.r.randint(1, 3), nv - 1)
                rts = [g.nat(1) + 1 for _ in range(coar)]
            else:
                op = g.r.choice([31, 32, 33, 34])
                args = g.nats(g.size(3), nv - 1)
                rts = [g.nat(1) + 1 for _ in range(g.r.randint(0, 2) if op % 2 == 0 else 1)]
            cmds.append(["apply", op, args, rts])
            labels += rts
            nv += len(rts)
    if evaluable:
        ins = g.r.sample(fresh, g.r.randint(0, len(fresh)))
    else:
        ins = g.nats(g.size(3), nv - 1)
    outs = g.nats(g.size(3), nv - 1)
    return cmds, ins, outs


def var_term(g):
    """an arbitrary lax term with var-labelled (label 9) edges of any arity and label mix"""
    f = g.lohg(labels=2, elabels=2, maxar=2, nq=g.r.choice([0, 0, 1, 2]))
    f[2][1] = [9 if x == 0 else x for x in f[2][1]]
    return f


def C19(g, tier):
    Lx = lambda f: ["l", f]
    for _ in range(N(tier, 400, 4000)):
        cmds, ins, outs = var_program(g)
        leaked = g.r.random() < 0.05
        nt = sum(1 for c in cmds if c[0] == "apply") >= 2
        yield sx(["var_build", cmds, ins, outs, leaked]), nt
        # semantic clause: forget(build prog) evaluates to the expression written
        ecmds, eins, eouts = var_program(g, evaluable=True)
        einp = [Z(g.r.choice([0, 1, 2, g.r.getrandbits(64)])) for _ in eins]
        yield sx(["var_eval", ecmds, eins, eouts, einp]), sum(1 for c in ecmds if c[0] == "apply") >= 2
        if g.r.random() < 0.2:
            ks, kt = g.r.randint(5, 14), g.r.randint(0, 4)
            nodes = [1] * (ks + kt)
            if g.r.random() < 0.6:
                nodes[g.r.choice([ks - 1, ks - 2, ks + kt - 1, g.r.randrange(ks + kt)])] = 2
            wide = [list(range(ks)), list(range(ks, ks + kt)),
                    [nodes, [9], [[list(range(ks)), list(range(ks, ks + kt))]], [[], []]]]
            yield sx(["term", "vec", ["forget", Lx(wide)]]), True
            yield sx(["term", "vec", ["forget_monogamous", Lx(wide)]]), True
        if g.r.random() < 0.3:
            ks, kt = g.r.choice([(0, 2), (2, 0), (1, 0), (0, 1), (3, 0), (0, 3), (0, 0)])
            nodes = [g.r.choice([1, 1, 2]) for _ in range(ks + kt)]
            one = [list(range(ks)), list(range(ks, ks + kt)),
                   [nodes, [9], [[list(range(ks)), list(range(ks, ks + kt))]], [[], []]]]
            yield sx(["term", "vec", ["forget", Lx(one)]]), True
            yield sx(["term", "vec", ["forget_monogamous", Lx(one)]]), True
        f = var_term(g)
        nonuniform = True
        yield sx(["term", "vec", ["forget", Lx(f)]]), nonuniform
        yield sx(["term", "vec", ["forget_monogamous", Lx(f)]]), nonuniform
        yield sx(["law", "vec", ["to_strict", ["lfmap_id", ["forget", Lx(f)]]], ["to_strict", ["forget", Lx(f)]]]), False


def C20(g, tier):
    S = lambda f: ["s", f]
    for _ in range(N(tier, 200, 2000)):
        f, h = composable(g)
        for bk in BACKENDS:
            yield sx(["ohg_compose", bk, f, h]), True
            yield sx(["term", bk, ["sfmap_id", S(f)]]), True
            yield sx(["layer", bk, f]), True
            yield sx(["layered_operations", bk, f]), True
            yield sx(["ohg_is_acyclic", bk, f]), True
        c = single_writer_circuit(g)
        e = encode_circuit(*c)
        inp = [Z(g.r.getrandbits(64)) for _ in c[1]]
        for bk in BACKENDS3:
            yield sx(["eval", bk, e, inp]), True
        # one wide layer (5..10 operations with contiguous indices), then a few more operations
        c = single_writer_circuit(g, wide=g.r.randint(5, 10))
        c = c[:2] + ([g.r.randrange(c[0]) for _ in range(g.r.randint(1, 6))],) + c[3:]
        e = encode_circuit(*c)
        inp = [Z(g.r.choice([1, 2, 3, g.r.getrandbits(64)])) for _ in c[1]]
        for bk in BACKENDS3:
            yield sx(["eval", bk, e, inp]), True
            yield sx(["layer", bk, e]), True
        yield sx(["layered_operations", "adv2", e]), True
        yield sx(["ohg_compose", "adv2", f, h]), True
        yield sx(["term", "adv2", ["sfmap_id", S(f)]]), True
        # a back-end that is not a function of its arguments (choices change from call to call): verdict by the
        # specification checkers only (isomorphic composites, equal layers / values / predicates)
        yield sx(["ohg_compose", "adv3", f, h]), True
        yield sx(["term", "adv3", ["sfmap_id", S(f)]]), True
        yield sx(["term", "adv3", ["scomp", ["scomp", S(f), S(h)], ["sid", ohg_types(h)[1]]]]), True
        yield sx(["eval", "adv3", e, inp]), True
        yield sx(["layer", "adv3", e]), True
        yield sx(["layered_operations", "adv3", e]), True
        yield sx(["ohg_is_acyclic", "adv3", f]), True


VEC_ONLY = {"ics_iter_slices", "ops_iter"}
BACKENDS3 = ["vec", "adv", "adv2"]


def C20_generic(g, tier):
    """every back-end-generic operation of the other streams, re-run on the adversarial ArrayKind"""
    for fn in (C06, C08, C05, C04, C17, C18, C15):
        n = 0
        for text, nt in fn(g, "quick"):
            op, _, rest = text[1:].partition(" ")
            if not rest:
                continue
            if op in VEC_ONLY or op in ("term", "law") or op.startswith("l") or op.startswith("sfa") or op == "hg_empty":
                continue
            if rest.startswith(("vec ", "adv ", "adv2 ")):
                continue
            n += 1
            if tier == "quick" and n % 3:
                continue
            yield "(" + op + (" adv " if n % 2 else " adv2 ") + rest, nt


def C20_all(g, tier):
    yield from C20(g, tier)
    yield from C20_generic(g, tier)


# ---- late additions: appended AFTER the main stream of a property and driven by their own PRNG, so that adding one
# never changes a case the main stream generated before (no silent loss of earlier coverage)
EXTRA = {}


def _with_extra(pid, fn):
    def gen(g, tier):
        yield from fn(g, tier)
        if pid in EXTRA:
            g2 = G(g.r.getrandbits(30) if False else 7919 * int(pid[1:]) + 13)
            g2.r.seed((g2.r.random(), os.environ.get("VERIF_SEED", "1")).__repr__())
            yield from EXTRA[pid](g2, tier)
    return gen


ALL = {f"C{i:02d}": _with_extra(f"C{i:02d}", fn) for i, fn in enumerate(
    [C01, C02, C03, C04, C05, C06, C07, C08, C09, C10, C11, C12, C13, C14, C15, C16, C17, C18, C19, C20_all], start=1)}
