//! [`Vec<T>`]-backed arrays
use open_hypergraphs::array::vec::connected_components;
use open_hypergraphs::array::*;
use core::ops::{Add, Deref, DerefMut, Index, RangeBounds, Sub};

use std::sync::atomic::{AtomicUsize, Ordering};

/// 0 = "adv": every open choice resolved the other way round than on Vec;
/// 1 = "adv2": argsort keeps the first of a group of equal keys in front and lists the others in
///     decreasing position, component numbering reversed, sparse_bincount and scatter as on Vec.
pub static MODE: AtomicUsize = AtomicUsize::new(0);
/// 2 = "adv3": a conforming back-end that is NOT a function of its arguments — every call of one of the four open
///     operations resolves its choice according to a call counter (a parallel implementation may well behave so).
pub static CALLS: AtomicUsize = AtomicUsize::new(0);
fn mode() -> usize {
    let m = MODE.load(Ordering::Relaxed);
    if m == 2 {
        // alternate between the two deterministic adversarial behaviours from call to call
        return CALLS.fetch_add(1, Ordering::Relaxed) % 2;
    }
    m
}
fn stateful() -> Option<usize> {
    if MODE.load(Ordering::Relaxed) == 2 {
        Some(CALLS.fetch_add(1, Ordering::Relaxed))
    } else {
        None
    }
}

#[derive(PartialEq, Eq, Clone, Debug)]
pub struct AdvKind {}

impl ArrayKind for AdvKind {
    type Type<T> = AdvArray<T>;
    type I = usize;
    type Index = AdvArray<usize>;

    // A Slice for Vec is just a rust slice
    type Slice<'a, T: 'a> = &'a [T];
}

impl<T: PartialEq> PartialEq for AdvArray<T> {
    fn eq(&self, other: &Self) -> bool {
        self.0 == other.0
    }
}

#[derive(Clone, Debug)]
pub struct AdvArray<T>(pub Vec<T>);

impl AsRef<<AdvKind as ArrayKind>::Index> for AdvArray<usize> {
    fn as_ref(&self) -> &<AdvKind as ArrayKind>::Index {
        self
    }
}

impl AsMut<<AdvKind as ArrayKind>::Index> for AdvArray<usize> {
    fn as_mut(&mut self) -> &mut <AdvKind as ArrayKind>::Index {
        self
    }
}

// AdvArray is a newtype wrapper, so we can just treat it like a regular old Vec.
impl<T> Deref for AdvArray<T> {
    type Target = Vec<T>;
    fn deref(&self) -> &Self::Target {
        &self.0
    }
}

impl<T> DerefMut for AdvArray<T> {
    fn deref_mut(&mut self) -> &mut Self::Target {
        &mut self.0
    }
}

impl<T: Clone> Array<AdvKind, T> for AdvArray<T> {
    fn empty() -> Self {
        AdvArray(Vec::default())
    }

    fn len(&self) -> usize {
        self.0.len()
    }

    fn concatenate(&self, other: &Self) -> Self {
        let mut result: Vec<T> = Vec::with_capacity(self.len() + other.len());
        result.extend_from_slice(self);
        result.extend_from_slice(other);
        AdvArray(result)
    }

    fn fill(x: T, n: usize) -> Self {
        AdvArray(vec![x; n])
    }

    fn get(&self, i: usize) -> T {
        self[i].clone()
    }

    fn get_range<R: RangeBounds<usize>>(&self, rb: R) -> &[T] {
        self.index(self.to_range(rb))
    }

    fn set_range<R: RangeBounds<usize>>(&mut self, rb: R, v: &<AdvKind as ArrayKind>::Type<T>) {
        let r = self.to_range(rb);
        self[r].clone_from_slice(v)
    }

    fn gather(&self, idx: &[usize]) -> Self {
        AdvArray(idx.iter().map(|i| self.0[*i].clone()).collect())
    }

    fn scatter(&self, idx: &[usize], n: usize) -> AdvArray<T> {
        // adversarial but conforming: filler is the LAST element, the FIRST write to a slot wins
        if self.is_empty() {
            assert!(idx.is_empty());
            return AdvArray(vec![]);
        }
        if mode() == 1 {
            // as on Vec: filler is the first element, the last write wins
            let mut y = vec![self[0].clone(); n];
            assert!(idx.len() >= self.len());
            for i in 0..self.len() {
                y[idx[i]] = self[i].clone();
            }
            return AdvArray(y);
        }
        let mut y = vec![self[self.len() - 1].clone(); n];
        assert!(idx.len() >= self.len());
        for i in (0..self.len()).rev() {
            y[idx[i]] = self[i].clone();
        }
        AdvArray(y)
    }

    fn from_slice(slice: &[T]) -> Self {
        AdvArray(slice.into())
    }

    fn scatter_assign_constant(&mut self, ixs: &AdvArray<usize>, arg: T) {
        for &idx in ixs.iter() {
            self[idx] = arg.clone();
        }
    }

    fn scatter_assign(&mut self, ixs: &<AdvKind as ArrayKind>::Index, values: Self) {
        for (i, x) in ixs.iter().zip(values.iter()) {
            self[*i] = x.clone();
        }
    }
}

impl Add<&AdvArray<usize>> for usize {
    type Output = AdvArray<usize>;

    fn add(self, rhs: &AdvArray<usize>) -> Self::Output {
        AdvArray(rhs.iter().map(|x| x + self).collect())
    }
}

impl<T: Clone + Add<Output = T>> Add<AdvArray<T>> for AdvArray<T> {
    type Output = AdvArray<T>;

    fn add(self, rhs: AdvArray<T>) -> AdvArray<T> {
        assert_eq!(self.len(), rhs.len());
        AdvArray(
            self.iter()
                .zip(rhs.iter())
                .map(|(x, y)| x.clone() + y.clone())
                .collect(),
        )
    }
}

impl<T: Clone + Sub<Output = T>> Sub<AdvArray<T>> for AdvArray<T> {
    type Output = AdvArray<T>;

    fn sub(self, rhs: AdvArray<T>) -> AdvArray<T> {
        assert_eq!(self.len(), rhs.len());
        AdvArray(
            self.iter()
                .zip(rhs.iter())
                .map(|(x, y)| x.clone() - y.clone())
                .collect(),
        )
    }
}

impl<T: Ord + Clone> OrdArray<AdvKind, T> for AdvArray<T> {
    fn argsort(&self) -> AdvArray<usize> {
        if mode() == 1 {
            // insertion sort; a new index goes right behind the first index with an equal key
            let mut l: Vec<usize> = Vec::with_capacity(self.len());
            for i in 0..self.len() {
                let mut pos = l.len();
                for (p, &j) in l.iter().enumerate() {
                    if self[i] < self[j] {
                        pos = p;
                        break;
                    }
                    if self[i] == self[j] {
                        pos = p + 1;
                        break;
                    }
                }
                l.insert(pos, i);
            }
            return AdvArray(l);
        }
        // sorts, but equal keys come in DEcreasing index order
        let mut indices = (0..self.len()).rev().collect::<Vec<_>>();
        indices.sort_by_key(|&i| &self[i]);
        AdvArray(indices)
    }
}

impl NaturalArray<AdvKind> for AdvArray<usize> {
    fn max(&self) -> Option<usize> {
        self.iter().max().copied()
    }

    fn quot_rem(&self, d: usize) -> (Self, Self) {
        assert!(d != 0);
        let mut q = Vec::with_capacity(self.len());
        let mut r = Vec::with_capacity(self.len());
        for x in self.iter() {
            q.push(x / d);
            r.push(x % d);
        }
        (AdvArray(q), AdvArray(r))
    }

    fn mul_constant_add(&self, c: usize, x: &Self) -> Self {
        assert_eq!(self.len(), x.len());
        let mut r = Vec::with_capacity(self.len());
        for (s, x) in self.iter().zip(x.iter()) {
            r.push(s * c + x)
        }
        AdvArray(r)
    }

    fn cumulative_sum(&self) -> Self {
        let mut v = Vec::with_capacity(self.len() + 1);
        let mut a = 0;
        for x in self.iter() {
            v.push(a);
            a += x;
        }
        v.push(a); // don't forget the total sum!
        AdvArray(v)
    }

    fn arange(start: &usize, stop: &usize) -> Self {
        assert!(stop >= start, "invalid range [{:?}, {:?})", start, stop);
        let n = stop - start;
        let mut v = Vec::with_capacity(n);
        for i in 0..n {
            v.push(start + i);
        }
        AdvArray(v)
    }

    fn repeat(&self, x: &[usize]) -> AdvArray<usize> {
        assert_eq!(self.len(), x.len());
        let mut v: Vec<usize> = Vec::new();
        for (k, xi) in self.iter().zip(x) {
            v.extend(std::iter::repeat_n(xi, *k))
        }
        AdvArray(v)
    }

    fn connected_components(
        sources: &Self,
        targets: &Self,
        n: usize,
    ) -> (Self, <AdvKind as ArrayKind>::I) {
        // reversed component numbering
        let (cc_ix, c) = connected_components(sources, targets, n);
        if let Some(k) = stateful() {
            // a different (rotated) numbering on every call
            return (AdvArray(cc_ix.into_iter().map(|x| (x + k) % c.max(1)).collect()), c);
        }
        (AdvArray(cc_ix.into_iter().map(|x| c - 1 - x).collect()), c)
    }

    fn bincount(&self, size: usize) -> AdvArray<usize> {
        let mut counts = vec![0; size];
        for &idx in self.iter() {
            counts[idx] += 1;
        }
        AdvArray(counts)
    }

    fn zero(&self) -> AdvArray<usize> {
        let mut zero_indices = Vec::with_capacity(self.len());
        for (i, &val) in self.iter().enumerate() {
            if val == 0 {
                zero_indices.push(i);
            }
        }
        AdvArray(zero_indices)
    }

    fn sparse_bincount(&self) -> (AdvArray<usize>, AdvArray<usize>) {
        use std::collections::HashMap;

        // Count occurrences using a HashMap
        let mut counts_map = HashMap::new();
        for &idx in self.iter() {
            *counts_map.entry(idx).or_insert(0) += 1;
        }

        // Extract and sort unique indices
        let mut unique_indices: Vec<_> = counts_map.keys().cloned().collect();
        unique_indices.sort_unstable();
        if mode() != 1 {
            unique_indices.reverse(); // descending keys
        }

        // Gather counts in the same order as unique indices
        let counts: Vec<_> = unique_indices.iter().map(|&idx| counts_map[&idx]).collect();

        (AdvArray(unique_indices), AdvArray(counts))
    }

    fn scatter_sub_assign(&mut self, ixs: &AdvArray<usize>, rhs: &AdvArray<usize>) {
        for i in 0..ixs.len() {
            self[ixs[i]] -= rhs[i];
        }
    }
}
