//! The lax editing API and quotienting at OTHER label types than (usize, Lab): the crate is generic in its labels, so
//! its behaviour must not depend on their representation.  `Wide` is larger than a machine word, `()` is zero-sized.
//! Labels are translated to and from natural numbers at the boundary (for `()` every label is 0: the generator
//! produces all-zero labels for those cases).
use crate::sx::*;
use open_hypergraphs::array::vec::VecKind;
use open_hypergraphs::finite_function::FiniteFunction;
use open_hypergraphs::lax;
use open_hypergraphs::lax::{EdgeId, Hyperedge, NodeId};

pub trait NL: Clone + PartialEq + std::fmt::Debug {
    fn from_n(n: usize) -> Self;
    fn to_n(&self) -> usize;
}
#[derive(Clone, Debug, PartialEq)]
pub struct Wide {
    pad0: [u64; 2],
    n: usize,
    pad1: String,
}
impl NL for Wide {
    fn from_n(n: usize) -> Self {
        Wide { pad0: [7, n as u64 ^ 0x55], n, pad1: format!("w{}", n) }
    }
    fn to_n(&self) -> usize {
        self.n
    }
}
impl NL for () {
    fn from_n(_: usize) -> Self {}
    fn to_n(&self) -> usize {
        0
    }
}
impl NL for usize {
    fn from_n(n: usize) -> Self {
        n
    }
    fn to_n(&self) -> usize {
        *self
    }
}

type FF = FiniteFunction<VecKind>;
fn ids(v: &[NodeId]) -> Vec<usize> {
    v.iter().map(|x| x.0).collect()
}
fn nids(v: Vec<usize>) -> Vec<NodeId> {
    v.into_iter().map(NodeId).collect()
}
fn e_q(r: &Result<FF, FF>) -> Sx {
    match r {
        Ok(q) => Sx::L(vec![sym("ok"), crate::vec_ops::e_ff(q)]),
        Err(q) => Sx::L(vec![sym("err"), crate::vec_ops::e_ff(q)]),
    }
}

pub fn d_lhg<O: NL, A: NL>(x: &Sx) -> Option<lax::Hypergraph<O, A>> {
    match x {
        Sx::L(l) if l.len() == 4 => {
            let adjacency = d_list(&l[2], |e| match e {
                Sx::L(p) if p.len() == 2 => Some(Hyperedge {
                    sources: nids(d_nats(&p[0])?),
                    targets: nids(d_nats(&p[1])?),
                }),
                _ => None,
            })?;
            let q = match &l[3] {
                Sx::L(p) if p.len() == 2 => (nids(d_nats(&p[0])?), nids(d_nats(&p[1])?)),
                _ => return None,
            };
            Some(lax::Hypergraph {
                nodes: d_nats(&l[0])?.into_iter().map(O::from_n).collect(),
                edges: d_nats(&l[1])?.into_iter().map(A::from_n).collect(),
                adjacency,
                quotient: q,
            })
        }
        _ => None,
    }
}
pub fn e_lhg<O: NL, A: NL>(h: &lax::Hypergraph<O, A>) -> Sx {
    Sx::L(vec![
        Sx::L(h.nodes.iter().map(|x| Sx::N(x.to_n())).collect()),
        Sx::L(h.edges.iter().map(|x| Sx::N(x.to_n())).collect()),
        Sx::L(
            h.adjacency
                .iter()
                .map(|e| e_pair(e_nats(&ids(&e.sources)), e_nats(&ids(&e.targets))))
                .collect(),
        ),
        e_pair(e_nats(&ids(&h.quotient.0)), e_nats(&ids(&h.quotient.1))),
    ])
}
pub fn d_lohg<O: NL, A: NL>(x: &Sx) -> Option<lax::OpenHypergraph<O, A>> {
    match x {
        Sx::L(l) if l.len() == 3 => Some(lax::OpenHypergraph {
            sources: nids(d_nats(&l[0])?),
            targets: nids(d_nats(&l[1])?),
            hypergraph: d_lhg(&l[2])?,
        }),
        _ => None,
    }
}
pub fn e_lohg<O: NL, A: NL>(f: &lax::OpenHypergraph<O, A>) -> Sx {
    Sx::L(vec![e_nats(&ids(&f.sources)), e_nats(&ids(&f.targets)), e_lhg(&f.hypergraph)])
}

fn step<O: NL, A: NL>(f: &mut lax::OpenHypergraph<O, A>, c: &Sx) -> Option<Sx> {
    let l = match c {
        Sx::L(l) if !l.is_empty() => l,
        _ => return None,
    };
    let os = |v: Vec<usize>| -> Vec<O> { v.into_iter().map(O::from_n).collect() };
    let r = match d_sym(&l[0])? {
        "new_node" => Sx::N(f.new_node(O::from_n(d_nat(&l[1])?)).0),
        "new_edge" => {
            let e = Hyperedge { sources: nids(d_nats(&l[2])?), targets: nids(d_nats(&l[3])?) };
            Sx::N(f.new_edge(A::from_n(d_nat(&l[1])?), e).0)
        }
        "new_operation" => {
            let (e, (s, t)) = f.new_operation(A::from_n(d_nat(&l[1])?), os(d_nats(&l[2])?), os(d_nats(&l[3])?));
            Sx::L(vec![Sx::N(e.0), e_nats(&ids(&s)), e_nats(&ids(&t))])
        }
        "unify" => {
            f.unify(NodeId(d_nat(&l[1])?), NodeId(d_nat(&l[2])?));
            Sx::L(vec![])
        }
        "add_edge_source" => Sx::N(f.add_edge_source(EdgeId(d_nat(&l[1])?), O::from_n(d_nat(&l[2])?)).0),
        "add_edge_target" => Sx::N(f.add_edge_target(EdgeId(d_nat(&l[1])?), O::from_n(d_nat(&l[2])?)).0),
        "delete_edges" => {
            let e: Vec<EdgeId> = d_nats(&l[1])?.into_iter().map(EdgeId).collect();
            f.delete_edges(&e);
            Sx::L(vec![])
        }
        "delete_nodes" => {
            f.delete_nodes(&nids(d_nats(&l[1])?));
            Sx::L(vec![])
        }
        "h_delete_nodes_witness" => {
            let w = f.hypergraph.delete_nodes_witness(&nids(d_nats(&l[1])?));
            Sx::L(w.into_iter().map(|o| e_opt(o, Sx::N)).collect())
        }
        "h_delete_nodes" => {
            f.hypergraph.delete_nodes(&nids(d_nats(&l[1])?));
            Sx::L(vec![])
        }
        "map_nodes" => {
            let k = d_nat(&l[1])?;
            *f = f.clone().map_nodes(|w| O::from_n(w.to_n() + k));
            Sx::L(vec![])
        }
        "map_edges" => {
            let k = d_nat(&l[1])?;
            *f = f.clone().map_edges(|x| A::from_n(x.to_n() + k));
            Sx::L(vec![])
        }
        "with_nodes" => {
            let ws = os(d_nats(&l[1])?);
            match f.clone().with_nodes(|_| ws) {
                Some(g) => {
                    *f = g;
                    sym("some")
                }
                None => sym("none"),
            }
        }
        "with_edges" => {
            let xs: Vec<A> = d_nats(&l[1])?.into_iter().map(A::from_n).collect();
            match f.clone().with_edges(|_| xs) {
                Some(g) => {
                    *f = g;
                    sym("some")
                }
                None => sym("none"),
            }
        }
        "set_sources" => {
            f.sources = nids(d_nats(&l[1])?);
            Sx::L(vec![])
        }
        "set_targets" => {
            f.targets = nids(d_nats(&l[1])?);
            Sx::L(vec![])
        }
        "quotient" => e_q(&f.quotient()),
        "h_quotient" => e_q(&f.hypergraph.quotient()),
        _ => return None,
    };
    Some(r)
}

fn history<O: NL, A: NL>(mut f: lax::OpenHypergraph<O, A>, cs: &[Sx]) -> Sx {
    let mut out = vec![];
    for c in cs {
        let r = std::panic::catch_unwind(std::panic::AssertUnwindSafe(|| step(&mut f, c)));
        match r {
            Ok(Some(o)) => out.push(e_pair(o, e_lohg(&f))),
            Ok(None) => out.push(e_pair(sym("badcase"), e_lohg(&f))),
            Err(_) => {
                out.push(sym("panic"));
                break;
            }
        }
    }
    Sx::L(out)
}

fn ops<O: NL, A: NL>(op: &str, a: &[Sx]) -> Option<Sx> {
    Some(match op {
        "lax_history" => match &a[1] {
            Sx::L(cs) => history::<O, A>(d_lohg(&a[0])?, cs),
            _ => return None,
        },
        "lhg_quotient" => {
            let mut h = d_lhg::<O, A>(&a[0])?;
            let q = h.quotient();
            ok(e_pair(e_lhg(&h), e_q(&q)))
        }
        "lohg_quotient" => {
            let mut f = d_lohg::<O, A>(&a[0])?;
            let q = f.quotient();
            ok(e_pair(e_lohg(&f), e_q(&q)))
        }
        "lhg_coequalizer" => ok(crate::vec_ops::e_ff(&d_lhg::<O, A>(&a[0])?.coequalizer())),
        "lhg_is_strict" => e_bool(d_lhg::<O, A>(&a[0])?.is_strict()),
        _ => return None,
    })
}

/// `<op>_wide`, `<op>_unit`: the same operation at (Wide, Wide) resp. ((), ()) labels
pub fn dispatch(op: &str, a: &[Sx]) -> Option<Sx> {
    if let Some(base) = op.strip_suffix("_wide") {
        return ops::<Wide, Wide>(base, a);
    }
    if let Some(base) = op.strip_suffix("_unit") {
        return ops::<(), ()>(base, a);
    }
    None
}
