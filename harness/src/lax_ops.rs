//! Operations on the lax (Vec-based) layer, the term language, table-driven functors and optics,
//! the Var builder.  Mirrors coq/Run/Dispatch.v (tbl_lax, tbl_term).
use crate::adv_ops;
use crate::sx::*;
use crate::vec_ops;
use open_hypergraphs::array::vec::*;
use open_hypergraphs::category::*;
use open_hypergraphs::finite_function::FiniteFunction;
use open_hypergraphs::lax;
use open_hypergraphs::lax::functor::Functor as LaxFunctor;
use open_hypergraphs::lax::optic::Optic as LaxOptic;
use open_hypergraphs::lax::var;
use open_hypergraphs::lax::{EdgeId, Hyperedge, NodeId};
use open_hypergraphs::semifinite::SemifiniteFunction;
use open_hypergraphs::strict;
use open_hypergraphs::strict::functor::Functor as StrictFunctor;

/// edge labels: a transparent newtype so that HasVar and the operator traits can be implemented
#[derive(Clone, Copy, Debug, PartialEq, Eq, serde::Serialize, serde::Deserialize)]
#[serde(transparent)]
pub struct Lab(pub usize);

pub type LHG = lax::Hypergraph<usize, Lab>;
pub type LOHG = lax::OpenHypergraph<usize, Lab>;
type FF = FiniteFunction<VecKind>;

fn ids(v: &[NodeId]) -> Vec<usize> {
    v.iter().map(|x| x.0).collect()
}
fn nids(v: Vec<usize>) -> Vec<NodeId> {
    v.into_iter().map(NodeId).collect()
}
fn d_ff(x: &Sx) -> Option<FF> {
    vec_ops::d_ff(x)
}
fn e_ff(f: &FF) -> Sx {
    vec_ops::e_ff(f)
}

pub fn d_lhg(x: &Sx) -> Option<LHG> {
    match x {
        Sx::L(l) if l.len() == 4 => {
            let adjacency = d_list(&l[2], |e| match e {
                Sx::L(p) if p.len() == 2 => Some(Hyperedge {
                    sources: nids(d_nats(&p[0])?),
                    targets: nids(d_nats(&p[1])?),
                }),
                _ => None,
            })?;
            let q = match &l[3] {
                Sx::L(p) if p.len() == 2 => (nids(d_nats(&p[0])?), nids(d_nats(&p[1])?)),
                _ => return None,
            };
            Some(lax::Hypergraph {
                nodes: d_nats(&l[0])?,
                edges: d_nats(&l[1])?.into_iter().map(Lab).collect(),
                adjacency,
                quotient: q,
            })
        }
        _ => None,
    }
}
pub fn e_lhg(h: &LHG) -> Sx {
    Sx::L(vec![
        e_nats(&h.nodes),
        Sx::L(h.edges.iter().map(|x| Sx::N(x.0)).collect()),
        Sx::L(
            h.adjacency
                .iter()
                .map(|e| e_pair(e_nats(&ids(&e.sources)), e_nats(&ids(&e.targets))))
                .collect(),
        ),
        e_pair(e_nats(&ids(&h.quotient.0)), e_nats(&ids(&h.quotient.1))),
    ])
}
pub fn d_lohg(x: &Sx) -> Option<LOHG> {
    match x {
        Sx::L(l) if l.len() == 3 => Some(lax::OpenHypergraph {
            sources: nids(d_nats(&l[0])?),
            targets: nids(d_nats(&l[1])?),
            hypergraph: d_lhg(&l[2])?,
        }),
        _ => None,
    }
}
pub fn e_lohg(f: &LOHG) -> Sx {
    Sx::L(vec![e_nats(&ids(&f.sources)), e_nats(&ids(&f.targets)), e_lhg(&f.hypergraph)])
}
fn e_q(r: &Result<FF, FF>) -> Sx {
    match r {
        Ok(q) => Sx::L(vec![sym("ok"), e_ff(q)]),
        Err(q) => Sx::L(vec![sym("err"), e_ff(q)]),
    }
}

// strict VecKind open hypergraphs over (usize, Lab): conversions to the (usize, usize) codec
type SOHG = strict::OpenHypergraph<VecKind, usize, Lab>;
fn s_to_lab(f: vec_ops::OHG) -> SOHG {
    strict::OpenHypergraph {
        s: f.s,
        t: f.t,
        h: strict::Hypergraph {
            s: f.h.s,
            t: f.h.t,
            w: f.h.w,
            x: SemifiniteFunction(VecArray(f.h.x.0 .0.into_iter().map(Lab).collect())),
        },
    }
}
fn s_from_lab(f: SOHG) -> vec_ops::OHG {
    strict::OpenHypergraph {
        s: f.s,
        t: f.t,
        h: strict::Hypergraph {
            s: f.h.s,
            t: f.h.t,
            w: f.h.w,
            x: SemifiniteFunction(VecArray(f.h.x.0 .0.into_iter().map(|l| l.0).collect())),
        },
    }
}
fn sh_to_lab(h: vec_ops::HG) -> strict::Hypergraph<VecKind, usize, Lab> {
    strict::Hypergraph {
        s: h.s,
        t: h.t,
        w: h.w,
        x: SemifiniteFunction(VecArray(h.x.0 .0.into_iter().map(Lab).collect())),
    }
}
fn sh_from_lab(h: strict::Hypergraph<VecKind, usize, Lab>) -> vec_ops::HG {
    strict::Hypergraph {
        s: h.s,
        t: h.t,
        w: h.w,
        x: SemifiniteFunction(VecArray(h.x.0 .0.into_iter().map(|l| l.0).collect())),
    }
}

// ---------------- builder histories ----------------
fn lax_step(f: &mut LOHG, c: &Sx) -> Option<Sx> {
    let l = match c {
        Sx::L(l) if !l.is_empty() => l,
        _ => return None,
    };
    let r = match d_sym(&l[0])? {
        "new_node" => Sx::N(f.new_node(d_nat(&l[1])?).0),
        "new_edge" => {
            let e = Hyperedge { sources: nids(d_nats(&l[2])?), targets: nids(d_nats(&l[3])?) };
            Sx::N(f.new_edge(Lab(d_nat(&l[1])?), e).0)
        }
        "new_operation" => {
            let (e, (s, t)) = f.new_operation(Lab(d_nat(&l[1])?), d_nats(&l[2])?, d_nats(&l[3])?);
            Sx::L(vec![Sx::N(e.0), e_nats(&ids(&s)), e_nats(&ids(&t))])
        }
        "unify" => {
            f.unify(NodeId(d_nat(&l[1])?), NodeId(d_nat(&l[2])?));
            Sx::L(vec![])
        }
        "add_edge_source" => Sx::N(f.add_edge_source(EdgeId(d_nat(&l[1])?), d_nat(&l[2])?).0),
        "add_edge_target" => Sx::N(f.add_edge_target(EdgeId(d_nat(&l[1])?), d_nat(&l[2])?).0),
        "delete_edges" => {
            let e: Vec<EdgeId> = d_nats(&l[1])?.into_iter().map(EdgeId).collect();
            // the deprecated alias must behave identically
            #[allow(deprecated)]
            {
                let mut g = f.hypergraph.clone();
                let alias = std::panic::catch_unwind(std::panic::AssertUnwindSafe(|| {
                    g.delete_edge(&e);
                    g
                }));
                let mut h = f.hypergraph.clone();
                let real = std::panic::catch_unwind(std::panic::AssertUnwindSafe(|| {
                    h.delete_edges(&e);
                    h
                }));
                assert!(alias.ok() == real.ok(), "delete_edge alias differs");
            }
            f.delete_edges(&e);
            Sx::L(vec![])
        }
        "delete_nodes" => {
            f.delete_nodes(&nids(d_nats(&l[1])?));
            Sx::L(vec![])
        }
        "h_delete_nodes_witness" => {
            let w = f.hypergraph.delete_nodes_witness(&nids(d_nats(&l[1])?));
            Sx::L(w.into_iter().map(|o| e_opt(o, Sx::N)).collect())
        }
        "h_delete_nodes" => {
            f.hypergraph.delete_nodes(&nids(d_nats(&l[1])?));
            Sx::L(vec![])
        }
        "map_nodes" => {
            let k = d_nat(&l[1])?;
            *f = f.clone().map_nodes(|w| w + k);
            Sx::L(vec![])
        }
        "map_edges" => {
            let k = d_nat(&l[1])?;
            *f = f.clone().map_edges(|x| Lab(x.0 + k));
            Sx::L(vec![])
        }
        "with_nodes" => {
            let ws = d_nats(&l[1])?;
            match f.clone().with_nodes(|_| ws) {
                Some(g) => {
                    *f = g;
                    sym("some")
                }
                None => sym("none"),
            }
        }
        "with_edges" => {
            let xs: Vec<Lab> = d_nats(&l[1])?.into_iter().map(Lab).collect();
            match f.clone().with_edges(|_| xs) {
                Some(g) => {
                    *f = g;
                    sym("some")
                }
                None => sym("none"),
            }
        }
        "set_sources" => {
            f.sources = nids(d_nats(&l[1])?);
            Sx::L(vec![])
        }
        "set_targets" => {
            f.targets = nids(d_nats(&l[1])?);
            Sx::L(vec![])
        }
        "quotient" => {
            #[allow(deprecated)]
            {
                let mut g = f.clone();
                let r1 = g.quotient_witness();
                let mut h = f.clone();
                let r2 = h.quotient();
                assert!(g == h && e_q(&r1) == e_q(&r2), "quotient_witness alias differs");
            }
            e_q(&f.quotient())
        }
        "h_quotient" => e_q(&f.hypergraph.quotient()),
        _ => return None,
    };
    Some(r)
}

fn lax_history(mut f: LOHG, cs: &[Sx]) -> Sx {
    let mut out = vec![];
    for c in cs {
        let r = std::panic::catch_unwind(std::panic::AssertUnwindSafe(|| lax_step(&mut f, c)));
        match r {
            Ok(Some(o)) => out.push(e_pair(o, e_lohg(&f))),
            Ok(None) => out.push(e_pair(sym("badcase"), e_lohg(&f))),
            Err(_) => {
                out.push(sym("panic"));
                break;
            }
        }
    }
    Sx::L(out)
}

// ---------------- table-driven functors ----------------
#[derive(Clone)]
pub struct TableFunctor {
    obj: Vec<Vec<usize>>,
    kind: Vec<usize>,
    off: usize,
}
impl TableFunctor {
    fn objs(&self, l: &[usize]) -> Vec<usize> {
        l.iter().flat_map(|o| self.obj.get(*o).cloned().unwrap_or_default()).collect()
    }
}
fn discrete_io(fs: Vec<usize>, ft: Vec<usize>) -> LOHG {
    let mut f = LOHG::empty();
    f.sources = (0..fs.len()).map(NodeId).collect();
    f.targets = (fs.len()..fs.len() + ft.len()).map(NodeId).collect();
    f.hypergraph.nodes = fs.into_iter().chain(ft).collect();
    f
}
impl LaxFunctor<usize, Lab, usize, Lab> for TableFunctor {
    fn map_object(&self, o: &usize) -> impl ExactSizeIterator<Item = usize> {
        self.obj.get(*o).cloned().unwrap_or_default().into_iter()
    }
    fn map_operation(&self, a: &Lab, source: &[usize], target: &[usize]) -> LOHG {
        let fs = self.objs(source);
        let ft = self.objs(target);
        match self.kind.get(a.0).copied().unwrap_or(0) {
            0 => LOHG::singleton(Lab(a.0 + self.off), fs, ft),
            1 => LOHG::singleton(*a, fs.clone(), fs.clone())
                .lax_compose(&LOHG::singleton(Lab(a.0 + self.off), fs, ft))
                .unwrap_or_else(LOHG::empty),
            2 => discrete_io(fs, ft),
            4 => {
                // edge-less spider merging all wires of one label: boundary nodes are repeated
                let mut labs: Vec<usize> = vec![];
                for x in fs.iter().chain(ft.iter()) {
                    if !labs.contains(x) {
                        labs.push(*x);
                    }
                }
                let idx = |l: &usize| NodeId(labs.iter().position(|y| y == l).unwrap_or(0));
                let mut f = LOHG::empty();
                f.sources = fs.iter().map(idx).collect();
                f.targets = ft.iter().map(idx).collect();
                f.hypergraph.nodes = labs.clone();
                f
            }
            _ => {
                if fs == ft {
                    LOHG::identity(fs)
                } else {
                    discrete_io(fs, ft)
                }
            }
        }
    }
    fn map_arrow(&self, f: &LOHG) -> LOHG {
        lax::functor::dyn_functor::define_map_arrow(self, f)
    }
}
fn d_ftable(x: &Sx) -> Option<TableFunctor> {
    match x {
        Sx::L(l) if l.len() == 3 => Some(TableFunctor {
            obj: d_list(&l[0], d_nats)?,
            kind: d_nats(&l[1])?,
            off: d_nat(&l[2])?,
        }),
        _ => None,
    }
}

// ---------------- table-driven optics and the polynomial theory ----------------
#[derive(Clone)]
pub enum TOptic {
    Table { fobj: Vec<Vec<usize>>, robj: Vec<Vec<usize>>, res: Vec<Vec<usize>>, kind: Vec<usize> },
    Poly,
}
fn tab(t: &[Vec<usize>], l: &[usize]) -> Vec<usize> {
    l.iter().flat_map(|o| t.get(*o).cloned().unwrap_or_default()).collect()
}
fn mk_lohg(s: &[usize], t: &[usize], nodes: usize, edges: &[(usize, &[usize], &[usize])]) -> LOHG {
    let mut f = LOHG::empty();
    f.hypergraph.nodes = vec![0; nodes];
    for (x, es, et) in edges {
        f.new_edge(Lab(*x), (nids(es.to_vec()), nids(et.to_vec())));
    }
    f.sources = nids(s.to_vec());
    f.targets = nids(t.to_vec());
    f
}
impl LaxOptic<usize, Lab, usize, Lab> for TOptic {
    fn fwd_object(&self, o: &usize) -> Vec<usize> {
        match self {
            TOptic::Table { fobj, .. } => fobj.get(*o).cloned().unwrap_or_default(),
            TOptic::Poly => vec![0],
        }
    }
    fn rev_object(&self, o: &usize) -> Vec<usize> {
        match self {
            TOptic::Table { robj, .. } => robj.get(*o).cloned().unwrap_or_default(),
            TOptic::Poly => vec![0],
        }
    }
    fn residual(&self, a: &Lab) -> Vec<usize> {
        match self {
            TOptic::Table { res, .. } => res.get(a.0).cloned().unwrap_or_default(),
            TOptic::Poly => {
                if a.0 == 1 {
                    vec![0, 0]
                } else {
                    vec![]
                }
            }
        }
    }
    fn fwd_operation(&self, a: &Lab, s: &[usize], t: &[usize]) -> LOHG {
        match self {
            TOptic::Table { fobj, kind, .. } => {
                let fs = tab(fobj, s);
                let mut ft = tab(fobj, t);
                ft.extend(self.residual(a));
                match kind.get(a.0).copied().unwrap_or(0) {
                    0 => LOHG::singleton(Lab(2 * a.0), fs, ft),
                    _ => discrete_io(fs, ft),
                }
            }
            TOptic::Poly => match a.0 {
                1 => mk_lohg(
                    &[0, 1],
                    &[6, 3, 5],
                    7,
                    &[(3, &[0], &[2, 3]), (3, &[1], &[4, 5]), (1, &[2, 4], &[6])],
                ),
                _ => LOHG::singleton(*a, s.to_vec(), t.to_vec()),
            },
        }
    }
    fn rev_operation(&self, a: &Lab, s: &[usize], t: &[usize]) -> LOHG {
        match self {
            TOptic::Table { robj, kind, .. } => {
                let mut rs = self.residual(a);
                rs.extend(tab(robj, t));
                let rt = tab(robj, s);
                match kind.get(a.0).copied().unwrap_or(0) {
                    0 => LOHG::singleton(Lab(2 * a.0 + 1), rs, rt),
                    _ => discrete_io(rs, rt),
                }
            }
            TOptic::Poly => match a.0 {
                0 => LOHG::singleton(Lab(3), vec![0], vec![0, 0]),
                1 => mk_lohg(
                    &[0, 1, 2],
                    &[5, 6],
                    7,
                    &[(3, &[2], &[3, 4]), (1, &[1, 3], &[5]), (1, &[0, 4], &[6])],
                ),
                2 => LOHG::singleton(Lab(2), vec![0], vec![0]),
                3 => LOHG::singleton(Lab(0), vec![0, 0], vec![0]),
                4 => LOHG::singleton(Lab(10), vec![], vec![0]),
                _ => LOHG::singleton(Lab(4), vec![0], vec![]),
            },
        }
    }
}
fn d_optic(x: &Sx) -> Option<TOptic> {
    match x {
        Sx::S(s) if s == "poly" => Some(TOptic::Poly),
        Sx::L(l) if l.len() == 4 => Some(TOptic::Table {
            fobj: d_list(&l[0], d_nats)?,
            robj: d_list(&l[1], d_nats)?,
            res: d_list(&l[2], d_nats)?,
            kind: d_nats(&l[3])?,
        }),
        _ => None,
    }
}

// ---------------- Var signature ----------------
impl var::HasVar for Lab {
    fn var() -> Self {
        Lab(9)
    }
}
macro_rules! has_bin {
    ($tr:ident, $f:ident, $code:expr) => {
        impl var::$tr<usize, Lab> for Lab {
            fn $f(l: usize, _r: usize) -> (usize, Lab) {
                (l, Lab($code))
            }
        }
    };
}
macro_rules! has_un {
    ($tr:ident, $f:ident, $code:expr) => {
        impl var::$tr<usize, Lab> for Lab {
            fn $f(l: usize) -> (usize, Lab) {
                (l, Lab($code))
            }
        }
    };
}
// operator -> edge label (the generator writes `apply <code> ..` with the same codes)
has_bin!(HasAdd, add, 0);
has_bin!(HasMul, mul, 1);
has_bin!(HasSub, sub, 22);
has_bin!(HasDiv, div, 23);
has_bin!(HasBitAnd, bitand, 5);
has_bin!(HasBitXor, bitxor, 6);
has_bin!(HasBitOr, bitor, 28);
has_bin!(HasShl, shl, 29);
has_bin!(HasShr, shr, 30);
has_un!(HasNeg, neg, 2);
has_un!(HasNot, not, 7);

type V = var::Var<usize, Lab>;

fn var_build_term(prog: &[Sx], ins: &[usize], outs: &[usize]) -> Option<Option<LOHG>> {
    match var_build_raw(prog, ins, outs, false)? {
        Ok(f) => Some(Some(f)),
        Err(_) => Some(None),
    }
}

fn var_build(prog: &[Sx], ins: &[usize], outs: &[usize], leaked: bool) -> Option<Sx> {
    let r = var_build_raw(prog, ins, outs, leaked)?;
    Some(ok(match r {
        Ok(f) => some(e_lohg(&f)),
        Err(_) => none(),
    }))
}

fn var_build_raw(prog: &[Sx], ins: &[usize], outs: &[usize], leaked: bool) -> Option<var::BuildResult<usize, Lab>> {
    use std::cell::RefCell;
    use std::rc::Rc;
    let bad = RefCell::new(false);
    let leak: RefCell<Option<V>> = RefCell::new(None);
    // a weak reference to the builder state outlives the closure: it owns nothing and must not make `build` fail
    let weak: RefCell<Option<std::rc::Weak<RefCell<LOHG>>>> = RefCell::new(None);
    let r = var::build(|state: &Rc<RefCell<LOHG>>| {
        *weak.borrow_mut() = Some(Rc::downgrade(state));
        let mut vs: Vec<V> = vec![];
        for c in prog {
            let ok = (|| -> Option<()> {
                let l = match c {
                    Sx::L(l) => l,
                    _ => return None,
                };
                match d_sym(&l[0])? {
                    "new" => vs.push(var::Var::new(state.clone(), d_nat(&l[1])?)),
                    "apply" => {
                        let op = d_nat(&l[1])?;
                        let args: Vec<V> = d_nats(&l[2])?.iter().map(|i| vs[*i].clone()).collect();
                        let rts = d_nats(&l[3])?;
                        // use the operator overloads whenever the shape allows it
                        let ov = rts.len() == 1 && rts[0] == args.first().map(|v| v.label).unwrap_or(usize::MAX);
                        let r: Vec<V> = match (op, args.len(), ov) {
                            (0, 2, true) => vec![args[0].clone() + args[1].clone()],
                            (1, 2, true) => vec![args[0].clone() * args[1].clone()],
                            (22, 2, true) => vec![args[0].clone() - args[1].clone()],
                            (23, 2, true) => vec![args[0].clone() / args[1].clone()],
                            (5, 2, true) => vec![args[0].clone() & args[1].clone()],
                            (6, 2, true) => vec![args[0].clone() ^ args[1].clone()],
                            (28, 2, true) => vec![args[0].clone() | args[1].clone()],
                            (29, 2, true) => vec![args[0].clone() << args[1].clone()],
                            (30, 2, true) => vec![args[0].clone() >> args[1].clone()],
                            (2, 1, true) => vec![-args[0].clone()],
                            (7, 1, true) => vec![!args[0].clone()],
                            (_, _, _) if rts.len() == 1 && op % 2 == 1 => {
                                vec![var::fn_operation(state, &args, rts[0], Lab(op))]
                            }
                            _ => var::operation(state, &args, rts, Lab(op)),
                        };
                        vs.extend(r);
                    }
                    _ => return None,
                }
                Some(())
            })();
            if ok.is_none() {
                *bad.borrow_mut() = true;
            }
        }
        let s: Vec<V> = ins.iter().map(|i| vs[*i].clone()).collect();
        let t: Vec<V> = outs.iter().map(|i| vs[*i].clone()).collect();
        if leaked {
            if let Some(v) = vs.first() {
                *leak.borrow_mut() = Some(v.clone());
            } else {
                *leak.borrow_mut() = Some(var::Var::new(state.clone(), 0));
            }
        }
        (s, t)
    });
    if *bad.borrow() {
        return None;
    }
    drop(leak);
    drop(weak);
    Some(r)
}

// ---------------- term language ----------------
pub enum Val {
    S(vec_ops::OHG),
    SA(adv_ops::OHG),
    L(LOHG),
}
fn e_val(v: &Val) -> Sx {
    match v {
        Val::S(f) => Sx::L(vec![sym("strict"), vec_ops::e_ohg(f)]),
        Val::SA(f) => Sx::L(vec![sym("strict"), adv_ops::e_ohg(f)]),
        Val::L(f) => Sx::L(vec![sym("lax"), e_lohg(f)]),
    }
}

macro_rules! strict_term {
    ($fname:ident, $m:ident, $variant:ident) => {
        /// Evaluate a term whose strict parts live on the given back-end.  None = absence
        /// (type mismatch, refused spider), panics propagate.
        pub fn $fname(x: &Sx) -> Option<Val> {
            use open_hypergraphs::strict::functor::identity::Identity;
            let l = match x {
                Sx::L(l) if !l.is_empty() => l,
                _ => panic!("bad term"),
            };
            let s = |v: Option<Val>| -> Option<$m::OHG> {
                match v? {
                    Val::$variant(f) => Some(f),
                    _ => panic!("expected strict value"),
                }
            };
            let lx = |v: Option<Val>| -> Option<LOHG> {
                match v? {
                    Val::L(f) => Some(f),
                    _ => panic!("expected lax value"),
                }
            };
            let arr = |x: &Sx| SemifiniteFunction::<$m::K, usize>($m::d_arr(x).expect("bad term"));
            match d_sym(&l[0]).expect("bad term") {
                "s" => Some(Val::$variant($m::d_ohg(&l[1]).expect("bad term"))),
                "sunit" => Some(Val::$variant($m::OHG::identity(<$m::OHG as Monoidal>::unit()))),
                "sid" => Some(Val::$variant($m::OHG::identity(arr(&l[1])))),
                "stwist" => Some(Val::$variant($m::OHG::twist(arr(&l[1]), arr(&l[2])))),
                "sspider" => $m::OHG::spider(
                    $m::d_ff(&l[1]).expect("bad term"),
                    $m::d_ff(&l[2]).expect("bad term"),
                    arr(&l[3]),
                )
                .map(Val::$variant),
                "ssingleton" => Some(Val::$variant($m::OHG::singleton(
                    d_nat(&l[1]).expect("bad term"),
                    arr(&l[2]),
                    arr(&l[3]),
                ))),
                "scomp" => {
                    let f = s($fname(&l[1]))?;
                    let g = s($fname(&l[2]))?;
                    (&f >> &g).map(Val::$variant)
                }
                "stens" => {
                    let f = s($fname(&l[1]))?;
                    let g = s($fname(&l[2]))?;
                    Some(Val::$variant(&f | &g))
                }
                "sdag" => Some(Val::$variant(s($fname(&l[1]))?.dagger())),
                "sfmap_id" => {
                    let f = s($fname(&l[1]))?;
                    Some(Val::$variant(Identity.map_arrow(&f)))
                }
                _ => lax_term::<$m::K>(l, &|y| $fname(y), &lx),
            }
        }
    };
}
strict_term!(term_vec, vec_ops, S);
strict_term!(term_adv, adv_ops, SA);

/// the VecKind-only constructs (everything lax, and the bridges)
fn lax_term<K>(
    l: &[Sx],
    rec: &dyn Fn(&Sx) -> Option<Val>,
    lx: &dyn Fn(Option<Val>) -> Option<LOHG>,
) -> Option<Val> {
    let sv = |v: Option<Val>| -> Option<vec_ops::OHG> {
        match v? {
            Val::S(f) => Some(f),
            _ => panic!("bridge between lax and strict is VecKind-only"),
        }
    };
    let nats = |x: &Sx| d_nats(x).expect("bad term");
    match d_sym(&l[0]).expect("bad term") {
        "to_strict" => Some(Val::S(s_from_lab(lx(rec(&l[1]))?.to_strict()))),
        "sfmap" => {
            let ft = d_ftable(&l[1]).expect("bad term");
            let f = s_to_lab(sv(rec(&l[2]))?);
            let df = lax::functor::dyn_functor::to_dyn_functor(ft);
            Some(Val::S(s_from_lab(StrictFunctor::map_arrow(&df, &f))))
        }
        "l" => Some(Val::L(d_lohg(&l[1]).expect("bad term"))),
        "lunit" => Some(Val::L(<LOHG as Arrow>::identity(<LOHG as Monoidal>::unit()))),
        "lid" => Some(Val::L(<LOHG as Arrow>::identity(nats(&l[1])))),
        "ltwist" => Some(Val::L(<LOHG as SymmetricMonoidal>::twist(nats(&l[1]), nats(&l[2])))),
        "lspider" => <LOHG as Spider<VecKind>>::spider(
            d_ff(&l[1]).expect("bad term"),
            d_ff(&l[2]).expect("bad term"),
            nats(&l[3]),
        )
        .map(Val::L),
        "lsingleton" => Some(Val::L(LOHG::singleton(
            Lab(d_nat(&l[1]).expect("bad term")),
            nats(&l[2]),
            nats(&l[3]),
        ))),
        "lcomp" => {
            let f = lx(rec(&l[1]))?;
            let g = lx(rec(&l[2]))?;
            (&f >> &g).map(Val::L)
        }
        "llaxcomp" => {
            let f = lx(rec(&l[1]))?;
            let g = lx(rec(&l[2]))?;
            f.lax_compose(&g).map(Val::L)
        }
        "ltens" => {
            let f = lx(rec(&l[1]))?;
            let g = lx(rec(&l[2]))?;
            Some(Val::L(&f | &g))
        }
        "ldag" => Some(Val::L(lx(rec(&l[1]))?.dagger())),
        "from_strict" => Some(Val::L(LOHG::from_strict(s_to_lab(sv(rec(&l[1]))?)))),
        "lquotient" => {
            let mut f = lx(rec(&l[1]))?;
            match f.quotient() {
                Ok(_) => Some(Val::L(f)),
                Err(_) => None,
            }
        }
        "lfmap" => {
            let ft = d_ftable(&l[1]).expect("bad term");
            let arg = lx(rec(&l[2]))?;
            let r = ft.map_arrow(&arg);
            #[allow(deprecated)]
            let r2 = lax::functor::define_map_arrow(&ft, &arg);
            assert!(r == r2, "deprecated define_map_arrow shim differs");
            Some(Val::L(r))
        }
        "lfmap_id" => Some(Val::L(
            lax::functor::dyn_functor::Identity.map_arrow(&lx(rec(&l[1]))?),
        )),
        "lfmap_native" => {
            let ft = d_ftable(&l[1]).expect("bad term");
            lax::functor::try_define_map_arrow(&ft, &lx(rec(&l[2]))?).map(Val::L)
        }
        "forget" => Some(Val::L(var::forget::forget(&lx(rec(&l[1]))?))),
        "forget_monogamous" => Some(Val::L(var::forget::forget_monogamous(&lx(rec(&l[1]))?))),
        "optic" => {
            let p = d_optic(&l[1]).expect("bad term");
            Some(Val::L(p.map_arrow(lx(rec(&l[2]))?)))
        }
        "optic_adapted" => {
            let p = d_optic(&l[1]).expect("bad term");
            Some(Val::L(p.map_adapted(lx(rec(&l[2]))?)))
        }
        _ => panic!("bad term"),
    }
}

fn eval_term(bk: &str, x: &Sx) -> Option<Val> {
    match bk {
        "adv" => term_adv(x),
        _ => term_vec(x),
    }
}

fn term_result(bk: &str, x: &Sx) -> Sx {
    let r = std::panic::catch_unwind(std::panic::AssertUnwindSafe(|| eval_term(bk, x)));
    match r {
        Ok(v) => ok(e_opt(v, |v| e_val(&v))),
        Err(_) => sym("panic"),
    }
}

pub fn dispatch(op: &str, a: &[Sx]) -> Option<Sx> {
    let r = match op {
        "lax_history" => match &a[1] {
            Sx::L(cs) => lax_history(d_lohg(&a[0])?, cs),
            _ => return None,
        },
        "lax_json" => {
            let f = d_lohg(&a[0])?;
            let s = serde_json::to_string(&f).unwrap();
            let back: LOHG = serde_json::from_str(&s).unwrap();
            Sx::L(vec![sym(&s), e_bool(back == f)])
        }
        "lhg_coequalizer" => ok(e_ff(&d_lhg(&a[0])?.coequalizer())),
        "lhg_quotient" => {
            let mut h = d_lhg(&a[0])?;
            let r = h.quotient();
            ok(e_pair(e_lhg(&h), e_q(&r)))
        }
        "lohg_quotient" => {
            let mut f = d_lohg(&a[0])?;
            let r = f.quotient();
            ok(e_pair(e_lohg(&f), e_q(&r)))
        }
        "lhg_to_hypergraph" => ok(vec_ops::e_hg(&sh_from_lab(d_lhg(&a[0])?.to_hypergraph()))),
        "lhg_from_strict" => ok(e_lhg(&LHG::from_strict(sh_to_lab(vec_ops::d_hg(&a[0])?)))),
        "lhg_coproduct" => {
            // crate-private coproduct is observable through OpenHypergraph::tensor
            let f = LOHG { sources: vec![], targets: vec![], hypergraph: d_lhg(&a[0])? };
            let g = LOHG { sources: vec![], targets: vec![], hypergraph: d_lhg(&a[1])? };
            e_lhg(&f.tensor(&g).hypergraph)
        }
        "lhg_coproduct_assign" => {
            let mut g = d_lhg(&a[0])?;
            g.coproduct_assign(d_lhg(&a[1])?);
            e_lhg(&g)
        }
        "lohg_from_strict" => ok(e_lohg(&LOHG::from_strict(s_to_lab(vec_ops::d_ohg(&a[0])?)))),
        "lohg_to_strict" => {
            let r = vec_ops::e_ohg(&s_from_lab(d_lohg(&a[0])?.to_strict()));
            #[allow(deprecated)]
            let r2 = vec_ops::e_ohg(&s_from_lab(d_lohg(&a[0])?.to_open_hypergraph()));
            assert!(r == r2, "to_open_hypergraph alias differs");
            ok(r)
        }
        "lhg_is_strict" => e_bool(d_lhg(&a[0])?.is_strict()),
        "lohg_singleton" => e_lohg(&LOHG::singleton(Lab(d_nat(&a[0])?), d_nats(&a[1])?, d_nats(&a[2])?)),
        "lohg_identity" => e_lohg(&LOHG::identity(d_nats(&a[0])?)),
        "lohg_spider" => e_opt(LOHG::spider(d_ff(&a[0])?, d_ff(&a[1])?, d_nats(&a[2])?), |f| e_lohg(&f)),
        "lohg_half_spider" => ok(e_opt(
            <LOHG as Spider<VecKind>>::half_spider(d_ff(&a[0])?, d_nats(&a[1])?),
            |f| e_lohg(&f),
        )),
        "lohg_tensor" => {
            let (f, g) = (d_lohg(&a[0])?, d_lohg(&a[1])?);
            let r = f.tensor(&g);
            assert!(r == (&f | &g) && r == Monoidal::tensor(&f, &g));
            e_lohg(&r)
        }
        "lohg_tensor_assign" => {
            let mut f = d_lohg(&a[0])?;
            f.tensor_assign(d_lohg(&a[1])?);
            e_lohg(&f)
        }
        "lohg_append" => {
            let mut f = d_lohg(&a[0])?;
            let (s, t) = f.append(d_lohg(&a[1])?);
            e_pair(e_lohg(&f), e_pair(e_nats(&ids(&s)), e_nats(&ids(&t))))
        }
        "lohg_source" => ok(e_nats(&d_lohg(&a[0])?.source())),
        "lohg_target" => ok(e_nats(&d_lohg(&a[0])?.target())),
        "lohg_compose" => {
            let (f, g) = (d_lohg(&a[0])?, d_lohg(&a[1])?);
            let r = f.compose(&g);
            assert!(r == (&f >> &g));
            ok(e_opt(r, |f| e_lohg(&f)))
        }
        "lohg_lax_compose" => e_opt(d_lohg(&a[0])?.lax_compose(&d_lohg(&a[1])?), |f| e_lohg(&f)),
        "lohg_dagger" => e_lohg(&d_lohg(&a[0])?.dagger()),
        "lohg_twist" => ok(e_lohg(&<LOHG as SymmetricMonoidal>::twist(d_nats(&a[0])?, d_nats(&a[1])?))),
        // VecKind-only views
        "ics_iter_slices" => {
            let c = vec_ops::d_ics(&a[0])?;
            ok(Sx::L(c.iter().map(e_nats).collect()))
        }
        "ops_iter" => {
            let p = vec_ops::d_ops(&a[0])?;
            ok(Sx::L(
                p.iter().map(|(x, s, t)| Sx::L(vec![Sx::N(*x), e_nats(s), e_nats(t)])).collect(),
            ))
        }
        // terms
        "term" => term_result(d_sym(&a[0])?, &a[1]),
        "law" => Sx::L(vec![term_result(d_sym(&a[0])?, &a[1]), term_result(d_sym(&a[0])?, &a[2])]),
        "map_arrow_witness" => {
            let ft = d_ftable(&a[0])?;
            let f = d_lohg(&a[1])?;
            ok(e_opt(lax::functor::map_arrow_witness(&ft, &f), |(r, w)| {
                e_pair(e_lohg(&r), vec_ops::e_icf(&w))
            }))
        }
        "var_build" => {
            let prog = match &a[0] {
                Sx::L(p) => p,
                _ => return None,
            };
            var_build(prog, &d_nats(&a[1])?, &d_nats(&a[2])?, d_bool(&a[3])?)?
        }
        "var_eval" => {
            // build through the Var API, forget the variables, strictify, evaluate on the test signature
            let prog = match &a[0] {
                Sx::L(p) => p,
                _ => return None,
            };
            let inp = d_u64s(&a[3])?;
            match var_build_term(prog, &d_nats(&a[1])?, &d_nats(&a[2])?)? {
                None => ok(none()),
                Some(f) => {
                    let g = var::forget::forget(&f);
                    vec_ops::run_eval(&s_from_lab(g.to_strict()), inp)
                }
            }
        }
        "term_eval" => {
            let bk = d_sym(&a[0])?;
            let inp = d_u64s(&a[2])?;
            match eval_term(bk, &a[1]) {
                None => ok(none()),
                Some(Val::S(f)) => vec_ops::run_eval(&f, inp),
                Some(Val::SA(f)) => adv_ops::run_eval(&f, inp),
                Some(Val::L(f)) => {
                    let s = s_from_lab(f.to_strict());
                    if bk == "adv" {
                        // re-encode on the adversarial back-end
                        let t = adv_ops::d_ohg(&vec_ops::e_ohg(&s)).unwrap();
                        adv_ops::run_eval(&t, inp)
                    } else {
                        vec_ops::run_eval(&s, inp)
                    }
                }
            }
        }
        _ => return None,
    };
    Some(r)
}
