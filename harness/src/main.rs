//! ohg-run: executes case files against the real crate (rebuilt from /repo's working tree) and
//! prints one canonical result line per case: `<id> <result>`.
mod adv;
mod lax_generic;
mod lax_ops;
mod strict_ops;
mod sx;

use std::io::{BufRead, Write};
use sx::*;

/// an opaque element type (no Ord, no arithmetic) to force the generic code paths
#[derive(Clone, Debug, PartialEq)]
pub struct Label(pub usize);

strict_ops!(vec_ops, open_hypergraphs::array::vec::VecKind, VecArray, open_hypergraphs::array::vec::VecArray);
strict_ops!(adv_ops, crate::adv::AdvKind, AdvArray, crate::adv::AdvArray);


fn run(case: &Sx) -> Sx {
    let l = match case {
        Sx::L(l) if !l.is_empty() => l,
        _ => return sym("badcase"),
    };
    let op = match d_sym(&l[0]) {
        Some(s) => s.to_string(),
        None => return sym("badcase"),
    };
    // "adv2" is the adversarial ArrayKind in its second mode
    let mut owned: Vec<Sx> = l[1..].to_vec();
    let bsym = owned.first().and_then(d_sym).map(|s| s.to_string());
    let is2 = bsym.as_deref() == Some("adv2");
    let is3 = bsym.as_deref() == Some("adv3");
    adv::MODE.store(if is3 { 2 } else if is2 { 1 } else { 0 }, std::sync::atomic::Ordering::Relaxed);
    if is2 || is3 {
        owned[0] = sym("adv");
    }
    let args = &owned[..];
    let r = std::panic::catch_unwind(|| {
        // lax / term ops keep their backend argument; strict ops select the module by it
        if let Some(r) = lax_generic::dispatch(&op, args) {
            return Some(r);
        }
        if let Some(r) = lax_ops::dispatch(&op, args) {
            return Some(r);
        }
        match args.first().and_then(d_sym) {
            Some("vec") => vec_ops::dispatch(&op, &args[1..]),
            Some("adv") => adv_ops::dispatch(&op, &args[1..]),
            _ => vec_ops::dispatch(&op, args),
        }
    });
    match r {
        Ok(Some(x)) => x,
        Ok(None) => sym("badcase"),
        Err(_) => sym("panic"),
    }
}

fn main() {
    if std::env::var("OHG_PANIC_MSG").is_err() { std::panic::set_hook(Box::new(|_| {})); }
    let stdin = std::io::stdin();
    let stdout = std::io::stdout();
    let mut out = std::io::BufWriter::new(stdout.lock());
    let path = std::env::args().nth(1);
    let reader: Box<dyn BufRead> = match path {
        Some(p) => Box::new(std::io::BufReader::new(std::fs::File::open(p).expect("case file"))),
        None => Box::new(stdin.lock()),
    };
    for line in reader.lines() {
        let line = line.unwrap();
        if line.trim().is_empty() {
            continue;
        }
        let mut pos = 0;
        let id = parse(&line, &mut pos);
        let case = parse(&line, &mut pos);
        let mut s = String::new();
        match (id, case) {
            (Some(id), Some(case)) => {
                print(&id, &mut s);
                s.push(' ');
                print(&run(&case), &mut s);
            }
            _ => s.push_str("0 parseerror"),
        }
        writeln!(out, "{}", s).unwrap();
    }
}
