//! Operations on the strict (array-backend-generic) layer, instantiated once per ArrayKind.
//! Every entry mirrors one entry of coq/Run/Dispatch.v and prints the same canonical form.

#[macro_export]
macro_rules! strict_ops {
    ($modname:ident, $K:ty, $Arr:ident, $imp:path) => {
        #[allow(dead_code, unused_imports, clippy::all)]
        pub mod $modname {
            use crate::sx::*;
            use $imp;
            use crate::Label;
            use open_hypergraphs::array::*;
            use open_hypergraphs::category::*;
            use open_hypergraphs::finite_function::*;
            use open_hypergraphs::indexed_coproduct::*;
            use open_hypergraphs::operations::*;
            use open_hypergraphs::semifinite::*;
            use open_hypergraphs::strict::hypergraph::arrow::*;
            use open_hypergraphs::strict::hypergraph::*;
            use open_hypergraphs::strict::open_hypergraph::*;
            #[cfg(feature = "hooks")]
            use open_hypergraphs::strict::verif_hooks as hooks;
            use open_hypergraphs::strict::{eval::eval, layer::layer, layer::layered_operations};
            use std::ops::Bound;

            pub type K = $K;
            pub type Arr<T> = $Arr<T>;
            pub type FF = FiniteFunction<K>;
            pub type SF<T> = SemifiniteFunction<K, T>;
            pub type ICF = IndexedCoproduct<K, FF>;
            pub type ICS<T> = IndexedCoproduct<K, SF<T>>;
            pub type HG = Hypergraph<K, usize, usize>;
            pub type OHG = OpenHypergraph<K, usize, usize>;
            pub type OPS = Operations<K, usize, usize>;

            pub fn arr<T>(v: Vec<T>) -> $Arr<T> {
                $Arr(v)
            }
            pub fn d_arr(x: &Sx) -> Option<$Arr<usize>> {
                d_nats(x).map($Arr)
            }
            pub fn d_larr(x: &Sx) -> Option<$Arr<Label>> {
                d_nats(x).map(|v| $Arr(v.into_iter().map(Label).collect()))
            }
            pub fn e_arr(a: &$Arr<usize>) -> Sx {
                e_nats(&a.0)
            }
            pub fn e_larr(a: &$Arr<Label>) -> Sx {
                Sx::L(a.0.iter().map(|x| Sx::N(x.0)).collect())
            }
            pub fn d_ff(x: &Sx) -> Option<FF> {
                match x {
                    // the crate's hand-written Clone impls are exercised on every decoded value
                    Sx::L(l) if l.len() == 2 => Some(
                        FF {
                            table: d_arr(&l[0])?,
                            target: d_nat(&l[1])?,
                        }
                        .clone(),
                    ),
                    _ => None,
                }
            }
            pub fn e_ff(f: &FF) -> Sx {
                e_pair(e_arr(&f.table), Sx::N(f.target))
            }
            pub fn d_icf(x: &Sx) -> Option<ICF> {
                match x {
                    Sx::L(l) if l.len() == 2 => {
                        let mut c = ICF::initial(0);
                        c.sources = d_ff(&l[0])?;
                        c.values = d_ff(&l[1])?;
                        Some(c.clone())
                    }
                    _ => None,
                }
            }
            pub fn e_icf(c: &ICF) -> Sx {
                e_pair(e_ff(&c.sources), e_ff(&c.values))
            }
            pub fn d_ics(x: &Sx) -> Option<ICS<usize>> {
                match x {
                    Sx::L(l) if l.len() == 2 => {
                        let mut c = ICS::<usize>::singleton(SemifiniteFunction(arr(vec![])));
                        c.sources = d_ff(&l[0])?;
                        c.values = SemifiniteFunction(d_arr(&l[1])?).clone();
                        Some(c.clone())
                    }
                    _ => None,
                }
            }
            pub fn e_ics(c: &ICS<usize>) -> Sx {
                e_pair(e_ff(&c.sources), e_arr(&c.values.0))
            }
            pub fn d_hg(x: &Sx) -> Option<HG> {
                match x {
                    Sx::L(l) if l.len() == 4 => Some(
                        Hypergraph {
                            s: d_icf(&l[0])?,
                            t: d_icf(&l[1])?,
                            w: SemifiniteFunction(d_arr(&l[2])?),
                            x: SemifiniteFunction(d_arr(&l[3])?),
                        }
                        .clone(),
                    ),
                    _ => None,
                }
            }
            pub fn e_hg(h: &HG) -> Sx {
                Sx::L(vec![e_icf(&h.s), e_icf(&h.t), e_arr(&h.w.0), e_arr(&h.x.0)])
            }
            pub fn d_ohg(x: &Sx) -> Option<OHG> {
                match x {
                    Sx::L(l) if l.len() == 3 => Some(
                        OpenHypergraph {
                            s: d_ff(&l[0])?,
                            t: d_ff(&l[1])?,
                            h: d_hg(&l[2])?,
                        }
                        .clone(),
                    ),
                    _ => None,
                }
            }
            pub fn e_ohg(f: &OHG) -> Sx {
                Sx::L(vec![e_ff(&f.s), e_ff(&f.t), e_hg(&f.h)])
            }
            pub fn d_ops(x: &Sx) -> Option<OPS> {
                match x {
                    Sx::L(l) if l.len() == 3 => {
                        let mut p = OPS::singleton(
                            0,
                            SemifiniteFunction(arr(vec![])),
                            SemifiniteFunction(arr(vec![])),
                        );
                        p.x = SemifiniteFunction(d_arr(&l[0])?);
                        p.a = d_ics(&l[1])?;
                        p.b = d_ics(&l[2])?;
                        Some(p.clone())
                    }
                    _ => None,
                }
            }
            pub fn e_ops(p: &OPS) -> Sx {
                Sx::L(vec![e_arr(&p.x.0), e_ics(&p.a), e_ics(&p.b)])
            }
            fn e_invalid_hg(e: &InvalidHypergraph<K>) -> Sx {
                let (n, a, b) = match e {
                    InvalidHypergraph::SourcesCount(a, b) => ("SourcesCount", a, b),
                    InvalidHypergraph::TargetsCount(a, b) => ("TargetsCount", a, b),
                    InvalidHypergraph::SourcesSet(a, b) => ("SourcesSet", a, b),
                    InvalidHypergraph::TargetsSet(a, b) => ("TargetsSet", a, b),
                };
                Sx::L(vec![sym(n), Sx::N(*a), Sx::N(*b)])
            }
            fn e_invalid_ohg(e: &InvalidOpenHypergraph<K>) -> Sx {
                match e {
                    InvalidOpenHypergraph::CospanSourceType(a, b) => {
                        Sx::L(vec![sym("CospanSourceType"), Sx::N(*a), Sx::N(*b)])
                    }
                    InvalidOpenHypergraph::CospanTargetType(a, b) => {
                        Sx::L(vec![sym("CospanTargetType"), Sx::N(*a), Sx::N(*b)])
                    }
                    InvalidOpenHypergraph::InvalidHypergraph(e) => {
                        Sx::L(vec![sym("InvalidHypergraph"), e_invalid_hg(e)])
                    }
                }
            }
            fn err(x: Sx) -> Sx {
                Sx::L(vec![sym("err"), x])
            }

            // range forms
            enum R {
                Full,
                From(usize),
                To(usize),
                FromTo(usize, usize),
                ToIncl(usize),
                FromToIncl(usize, usize),
            }
            fn d_range(x: &Sx) -> Option<R> {
                match x {
                    Sx::L(l) if !l.is_empty() => {
                        let n = |i: usize| l.get(i).and_then(d_nat);
                        match d_sym(&l[0])? {
                            "full" => Some(R::Full),
                            "from" => Some(R::From(n(1)?)),
                            "to" => Some(R::To(n(1)?)),
                            "fromto" => Some(R::FromTo(n(1)?, n(2)?)),
                            "toincl" => Some(R::ToIncl(n(1)?)),
                            "fromtoincl" => Some(R::FromToIncl(n(1)?, n(2)?)),
                            _ => None,
                        }
                    }
                    _ => None,
                }
            }
            macro_rules! with_range {
                ($r:expr, |$rb:ident| $body:expr) => {
                    match $r {
                        R::Full => {
                            let $rb = ..;
                            $body
                        }
                        R::From(a) => {
                            let $rb = a..;
                            $body
                        }
                        R::To(b) => {
                            let $rb = ..b;
                            $body
                        }
                        R::FromTo(a, b) => {
                            let $rb = a..b;
                            $body
                        }
                        R::ToIncl(b) => {
                            let $rb = ..=b;
                            $body
                        }
                        R::FromToIncl(a, b) => {
                            let $rb = a..=b;
                            $body
                        }
                    }
                };
            }

            // the test signature for eval: total, any arity, arithmetic in Z/2^64
            pub fn interp(label: usize, inp: &[u64]) -> Vec<u64> {
                let sum = inp.iter().fold(0u64, |a, b| a.wrapping_add(*b));
                let prod = inp.iter().fold(1u64, |a, b| a.wrapping_mul(*b));
                let xor = inp.iter().fold(0u64, |a, b| a ^ *b);
                match label {
                    0 => vec![sum],
                    1 => vec![prod],
                    2 => vec![sum.wrapping_neg()],
                    3 => vec![sum, sum],
                    4 => vec![],
                    5 => vec![inp.iter().fold(u64::MAX, |a, b| a & *b)],
                    6 => vec![xor],
                    7 => vec![!xor],
                    8 => vec![sum, prod, sum],
                    _ => vec![label.saturating_sub(10) as u64],
                }
            }
            pub fn apply_sig(labels: SF<usize>, inputs: ICS<u64>) -> ICS<u64> {
                let mut sizes = vec![];
                let mut values = vec![];
                for (l, seg) in labels.0 .0.iter().zip(inputs.into_iter()) {
                    let o = interp(*l, &seg.0 .0);
                    sizes.push(o.len());
                    values.extend(o);
                }
                IndexedCoproduct::from_semifinite(
                    SemifiniteFunction(arr(sizes)),
                    SemifiniteFunction(arr(values)),
                )
                .unwrap()
            }
            pub fn run_eval(f: &OHG, inp: Vec<u64>) -> Sx {
                ok(e_opt(eval(f, arr(inp), apply_sig), |o: $Arr<u64>| e_u64s(&o.0)))
            }

            pub fn dispatch(op: &str, a: &[Sx]) -> Option<Sx> {
                let r = match op {
                    // ---------------- C07 ----------------
                    "a_get" => ok(Sx::N(d_arr(&a[0])?.get(d_nat(&a[1])?))),
                    "a_gather" => ok(e_arr(&d_arr(&a[0])?.gather(d_arr(&a[1])?.get_range(..)))),
                    "a_concat" => e_arr(&d_arr(&a[0])?.concatenate(&d_arr(&a[1])?)),
                    "a_fill" => e_arr(&<$Arr<usize> as Array<K, usize>>::fill(d_nat(&a[0])?, d_nat(&a[1])?)),
                    "a_to_range" => {
                        let x = <$Arr<usize> as Array<K, usize>>::fill(0, d_nat(&a[0])?);
                        let r = with_range!(d_range(&a[1])?, |rb| Array::<K, usize>::to_range(&x, rb));
                        e_pair(Sx::N(r.start), Sx::N(r.end))
                    }
                    "a_get_range" => {
                        let x = d_arr(&a[0])?;
                        let v: Vec<usize> = with_range!(d_range(&a[1])?, |rb| x.get_range(rb).to_vec());
                        ok(e_nats(&v))
                    }
                    "a_set_range" => {
                        let mut x = d_arr(&a[0])?;
                        let v = d_arr(&a[2])?;
                        with_range!(d_range(&a[1])?, |rb| x.set_range(rb, &v));
                        ok(e_arr(&x))
                    }
                    "a_scatter" => ok(e_arr(
                        &d_arr(&a[0])?.scatter(d_arr(&a[1])?.get_range(..), d_nat(&a[2])?),
                    )),
                    "a_scatter_assign" => {
                        let mut x = d_arr(&a[0])?;
                        x.scatter_assign(&d_arr(&a[1])?, d_arr(&a[2])?);
                        ok(e_arr(&x))
                    }
                    "a_scatter_assign_constant" => {
                        let mut x = d_arr(&a[0])?;
                        x.scatter_assign_constant(&d_arr(&a[1])?, d_nat(&a[2])?);
                        ok(e_arr(&x))
                    }
                    "a_max" => e_opt(d_arr(&a[0])?.max(), Sx::N),
                    "a_cumsum" => e_arr(&d_arr(&a[0])?.cumulative_sum()),
                    "a_sum" => ok(Sx::N(d_arr(&a[0])?.sum())),
                    "a_arange" => ok(e_arr(&<$Arr<usize> as NaturalArray<K>>::arange(
                        &d_nat(&a[0])?,
                        &d_nat(&a[1])?,
                    ))),
                    "a_repeat" => ok(e_arr(&d_arr(&a[0])?.repeat(d_arr(&a[1])?.get_range(..)))),
                    "a_quot_rem" => {
                        let (q, r) = d_arr(&a[0])?.quot_rem(d_nat(&a[1])?);
                        ok(e_pair(e_arr(&q), e_arr(&r)))
                    }
                    "a_mul_constant_add" => {
                        ok(e_arr(&d_arr(&a[0])?.mul_constant_add(d_nat(&a[1])?, &d_arr(&a[2])?)))
                    }
                    "a_add" => ok(e_arr(&(d_arr(&a[0])? + d_arr(&a[1])?))),
                    "a_sub" => ok(e_arr(&(d_arr(&a[0])? - d_arr(&a[1])?))),
                    "a_add_scalar" => e_arr(&(d_nat(&a[0])? + &d_arr(&a[1])?)),
                    "a_bincount" => ok(e_arr(&d_arr(&a[0])?.bincount(d_nat(&a[1])?))),
                    "a_zero" => e_arr(&d_arr(&a[0])?.zero()),
                    "a_scatter_sub_assign" => {
                        let mut x = d_arr(&a[0])?;
                        x.scatter_sub_assign(&d_arr(&a[1])?, &d_arr(&a[2])?);
                        ok(e_arr(&x))
                    }
                    "a_segmented_sum" => ok(e_arr(&d_arr(&a[0])?.segmented_sum(&d_arr(&a[1])?))),
                    "a_segmented_arange" => ok(e_arr(&d_arr(&a[0])?.segmented_arange())),
                    "a_argsort" => e_arr(&d_arr(&a[0])?.argsort()),
                    "a_sort_by" => ok(e_arr(&d_arr(&a[0])?.sort_by(&d_arr(&a[1])?))),
                    "a_sparse_bincount" => {
                        let (i, c) = d_arr(&a[0])?.sparse_bincount();
                        e_pair(e_arr(&i), e_arr(&c))
                    }
                    // the same primitives on values near the top of the usize range (the contract bounds no value):
                    // inputs are scaled by 2^57 on the way in, value outputs scaled back (order and equality are preserved)
                    "a_argsort_big" => {
                        let xs = $Arr(d_nats(&a[0])?.into_iter().map(|v| v << 57).collect::<Vec<usize>>());
                        e_arr(&xs.argsort())
                    }
                    "a_sort_by_big" => {
                        let xs = $Arr(d_nats(&a[0])?.into_iter().map(|v| v << 57).collect::<Vec<usize>>());
                        let key = $Arr(d_nats(&a[1])?.into_iter().map(|v| v << 57).collect::<Vec<usize>>());
                        let r = xs.sort_by(&key);
                        ok(e_nats(&r.0.iter().map(|v| v >> 57).collect::<Vec<usize>>()))
                    }
                    "a_sparse_bincount_big" => {
                        let xs = $Arr(d_nats(&a[0])?.into_iter().map(|v| v << 57).collect::<Vec<usize>>());
                        let (i, c) = xs.sparse_bincount();
                        e_pair(e_nats(&i.0.iter().map(|v| v >> 57).collect::<Vec<usize>>()), e_arr(&c))
                    }
                    "a_cc" | "a_cc_uf" => {
                        let (c, k) = <$Arr<usize> as NaturalArray<K>>::connected_components(
                            &d_arr(&a[0])?,
                            &d_arr(&a[1])?,
                            d_nat(&a[2])?,
                        );
                        ok(e_pair(e_arr(&c), Sx::N(k)))
                    }
                    // generic primitives at an opaque element type
                    "al_get" => ok(Sx::N(d_larr(&a[0])?.get(d_nat(&a[1])?).0)),
                    "al_gather" => ok(e_larr(&d_larr(&a[0])?.gather(d_arr(&a[1])?.get_range(..)))),
                    "al_concat" => e_larr(&d_larr(&a[0])?.concatenate(&d_larr(&a[1])?)),
                    "al_fill" => e_larr(&<$Arr<Label> as Array<K, Label>>::fill(
                        Label(d_nat(&a[0])?),
                        d_nat(&a[1])?,
                    )),
                    "al_get_range" => {
                        let x = d_larr(&a[0])?;
                        let v: Vec<Label> = with_range!(d_range(&a[1])?, |rb| x.get_range(rb).to_vec());
                        ok(e_larr(&arr(v)))
                    }
                    "al_set_range" => {
                        let mut x = d_larr(&a[0])?;
                        let v = d_larr(&a[2])?;
                        with_range!(d_range(&a[1])?, |rb| x.set_range(rb, &v));
                        ok(e_larr(&x))
                    }
                    "al_scatter" => ok(e_larr(
                        &d_larr(&a[0])?.scatter(d_arr(&a[1])?.get_range(..), d_nat(&a[2])?),
                    )),
                    "al_scatter_assign" => {
                        let mut x = d_larr(&a[0])?;
                        x.scatter_assign(&d_arr(&a[1])?, d_larr(&a[2])?);
                        ok(e_larr(&x))
                    }
                    "al_scatter_assign_constant" => {
                        let mut x = d_larr(&a[0])?;
                        x.scatter_assign_constant(&d_arr(&a[1])?, Label(d_nat(&a[2])?));
                        ok(e_larr(&x))
                    }
                    // ---------------- C06 ----------------
                    "ff_new" => e_opt(FF::new(d_arr(&a[0])?, d_nat(&a[1])?), |f| e_ff(&f)),
                    "ff_source" => Sx::N(d_ff(&a[0])?.source()),
                    "ff_terminal" => e_ff(&FF::terminal(d_nat(&a[0])?)),
                    "ff_constant" => e_ff(&FF::constant(d_nat(&a[0])?, d_nat(&a[1])?, d_nat(&a[2])?)),
                    "ff_inject0" => e_ff(&d_ff(&a[0])?.inject0(d_nat(&a[1])?)),
                    "ff_inject1" => e_ff(&d_ff(&a[0])?.inject1(d_nat(&a[1])?)),
                    "ff_initial" => e_ff(&FF::initial(d_nat(&a[0])?)),
                    "ff_unit_objects" => Sx::L(vec![
                        Sx::N(<FF as Coproduct>::initial_object()),
                        Sx::N(<FF as Monoidal>::unit()),
                    ]),
                    "ff_to_initial" => e_ff(&d_ff(&a[0])?.to_initial()),
                    "ff_identity" => ok(e_ff(&FF::identity(d_nat(&a[0])?))),
                    "ff_compose" => {
                        let (f, g) = (d_ff(&a[0])?, d_ff(&a[1])?);
                        let r1 = f.compose(&g);
                        let r2 = &f >> &g;
                        assert!(e_opt(r1.clone(), |f| e_ff(&f)) == e_opt(r2, |f| e_ff(&f)), "compose and >> differ");
                        ok(e_opt(r1, |f| e_ff(&f)))
                    }
                    "ff_compose_semi" => {
                        let (f, u) = (d_ff(&a[0])?, SemifiniteFunction::<K, usize>(d_arr(&a[1])?));
                        let r1 = compose_semifinite(&f, &u);
                        let r2 = &f >> &u;
                        assert!(e_opt(r1.clone(), |u| e_arr(&u.0)) == e_opt(r2, |u| e_arr(&u.0)), "compose_semifinite and >> differ");
                        ok(e_opt(r1, |u| e_arr(&u.0)))
                    }
                    "ff_coproduct" => {
                        let (f, g) = (d_ff(&a[0])?, d_ff(&a[1])?);
                        let r1 = f.coproduct(&g);
                        let r2 = &f + &g;
                        assert!(e_opt(r1.clone(), |f| e_ff(&f)) == e_opt(r2, |f| e_ff(&f)), "coproduct and + differ");
                        e_opt(r1, |f| e_ff(&f))
                    }
                    "ff_inj0" => ok(e_ff(&FF::inj0(d_nat(&a[0])?, d_nat(&a[1])?))),
                    "ff_inj1" => ok(e_ff(&FF::inj1(d_nat(&a[0])?, d_nat(&a[1])?))),
                    "ff_tensor" => {
                        let (f, g) = (d_ff(&a[0])?, d_ff(&a[1])?);
                        let r1 = f.tensor(&g);
                        let r2 = &f | &g;
                        assert!(e_ff(&r1) == e_ff(&r2), "tensor and | differ");
                        e_ff(&r1)
                    }
                    "ff_twist" => ok(e_ff(&FF::twist(d_nat(&a[0])?, d_nat(&a[1])?))),
                    "ff_transpose" => ok(e_ff(&FF::transpose(d_nat(&a[0])?, d_nat(&a[1])?))),
                    "ff_injections" => ok(e_opt(d_ff(&a[0])?.injections(&d_ff(&a[1])?), |f| e_ff(&f))),
                    "ff_cumulative_sum" => ok(e_ff(&d_ff(&a[0])?.cumulative_sum())),
                    "ff_is_injective" => ok(e_bool(d_ff(&a[0])?.is_injective())),
                    // the hand-written PartialEq impls
                    "ff_eq" => {
                        let (f, g) = (d_ff(&a[0])?, d_ff(&a[1])?);
                        assert!((f == g) == !(f != g));
                        e_bool(f == g)
                    }
                    "icf_eq" => e_bool(d_icf(&a[0])? == d_icf(&a[1])?),
                    "ics_eq" => e_bool(d_ics(&a[0])? == d_ics(&a[1])?),
                    "semi_eq" => e_bool(
                        SemifiniteFunction::<K, usize>(d_arr(&a[0])?) == SemifiniteFunction::<K, usize>(d_arr(&a[1])?),
                    ),
                    "arr_eq" => e_bool(d_arr(&a[0])? == d_arr(&a[1])?),
                    "ff_coequalizer" => ok(e_opt(d_ff(&a[0])?.coequalizer(&d_ff(&a[1])?), |f| e_ff(&f))),
                    "ff_coequalizer_universal" => ok(e_opt(
                        d_ff(&a[0])?.coequalizer_universal(&d_ff(&a[1])?),
                        |f| e_ff(&f),
                    )),
                    "coequalizer_universal" => ok(e_opt(
                        coequalizer_universal::<K, Label>(&d_ff(&a[0])?, &d_larr(&a[1])?),
                        |u| e_larr(&u),
                    )),
                    "sfa_source" => e_sfobj(&d_sfa(&a[0])?.source()),
                    "sfa_target" => e_sfobj(&d_sfa(&a[0])?.target()),
                    "sfa_identity" => ok(e_sfa(&SemifiniteArrow::<K, usize>::identity(d_sfobj(&a[0])?))),
                    "sfa_compose" => ok(e_opt(d_sfa(&a[0])?.compose(&d_sfa(&a[1])?), |x| e_sfa(&x))),
                    // ---------------- C08 ----------------
                    "icf_new" => ok(e_opt(ICF::new(d_ff(&a[0])?, d_ff(&a[1])?), |c| e_icf(&c))),
                    "ics_new" => ok(e_opt(
                        ICS::<usize>::new(d_ff(&a[0])?, SemifiniteFunction(d_arr(&a[1])?)),
                        |c| e_ics(&c),
                    )),
                    "icf_from_semifinite" => ok(e_opt(
                        ICF::from_semifinite(SemifiniteFunction(d_arr(&a[0])?), d_ff(&a[1])?),
                        |c| e_icf(&c),
                    )),
                    "ics_from_semifinite" => ok(e_opt(
                        ICS::<usize>::from_semifinite(
                            SemifiniteFunction(d_arr(&a[0])?),
                            SemifiniteFunction(d_arr(&a[1])?),
                        ),
                        |c| e_ics(&c),
                    )),
                    "icf_singleton" => e_icf(&ICF::singleton(d_ff(&a[0])?)),
                    "ics_singleton" => e_ics(&ICS::<usize>::singleton(SemifiniteFunction(d_arr(&a[0])?))),
                    "icf_elements" => ok(e_icf(&ICF::elements(d_ff(&a[0])?))),
                    "ics_elements" => ok(e_ics(&ICS::<usize>::elements(SemifiniteFunction(d_arr(&a[0])?)))),
                    "icf_len" => Sx::N(d_icf(&a[0])?.len()),
                    "icf_initial" => e_icf(&ICF::initial(d_nat(&a[0])?)),
                    "icf_tensor" => ok(e_icf(&d_icf(&a[0])?.tensor(&d_icf(&a[1])?))),
                    "icf_coproduct" => ok(e_opt(d_icf(&a[0])?.coproduct(&d_icf(&a[1])?), |c| e_icf(&c))),
                    "ics_coproduct" => ok(e_opt(d_ics(&a[0])?.coproduct(&d_ics(&a[1])?), |c| e_ics(&c))),
                    "icf_map_indexes" => ok(e_opt(d_icf(&a[0])?.map_indexes(&d_ff(&a[1])?), |c| e_icf(&c))),
                    "ics_map_indexes" => ok(e_opt(d_ics(&a[0])?.map_indexes(&d_ff(&a[1])?), |c| e_ics(&c))),
                    "icf_indexed_values" => {
                        ok(e_opt(d_icf(&a[0])?.indexed_values(&d_ff(&a[1])?), |f| e_ff(&f)))
                    }
                    "ics_indexed_values" => {
                        ok(e_opt(d_ics(&a[0])?.indexed_values(&d_ff(&a[1])?), |u| e_arr(&u.0)))
                    }
                    "icf_map_values" => ok(e_opt(d_icf(&a[0])?.map_values(&d_ff(&a[1])?), |c| e_icf(&c))),
                    "icf_map_semifinite" => ok(e_opt(
                        d_icf(&a[0])?.map_semifinite(&SemifiniteFunction::<K, usize>(d_arr(&a[1])?)),
                        |c| e_ics(&c),
                    )),
                    "icf_flatmap" => ok(e_icf(&d_icf(&a[0])?.flatmap(&d_icf(&a[1])?))),
                    "icf_flatmap_sources" => ok(e_icf(&d_icf(&a[0])?.flatmap_sources(&d_icf(&a[1])?))),
                    "ics_flatmap_sources" => ok(e_ics(&d_ics(&a[0])?.flatmap_sources(&d_ics(&a[1])?))),
                    "icf_iter_script" => {
                        // each k is one call of nth(k) (k = 0 is next()); also exercises skip / count / last
                        let c = d_icf(&a[0])?;
                        let ks = d_nats(&a[1])?;
                        let mut it = c.clone().into_iter();
                        let mut out = vec![];
                        for &k in ks.iter() {
                            let x = it.nth(k);
                            let n = it.len();
                            assert!(it.size_hint() == (n, Some(n)), "size_hint != len");
                            out.push(e_pair(e_opt(x, |f| e_ff(&f)), Sx::N(n)));
                        }
                        // last() of what is left (None once exhausted)
                        out.push(e_pair(e_opt(it.last(), |f| e_ff(&f)), Sx::N(0)));
                        if let Some(&k) = ks.first() {
                            let total = c.clone().into_iter().count();
                            assert!(c.clone().into_iter().skip(k).count() == total.saturating_sub(k), "skip/count");
                            let l = c.clone().into_iter().last().map(|f| e_ff(&f));
                            let l2 = if total == 0 { None } else { c.clone().into_iter().nth(total - 1).map(|f| e_ff(&f)) };
                            assert!(l == l2, "last != nth(len-1)");
                        }
                        ok(Sx::L(out))
                    }
                    "ics_iter_script" => {
                        let c = d_ics(&a[0])?;
                        let ks = d_nats(&a[1])?;
                        let mut it = c.clone().into_iter();
                        let mut out = vec![];
                        for &k in ks.iter() {
                            let x = it.nth(k);
                            let n = it.len();
                            assert!(it.size_hint() == (n, Some(n)), "size_hint != len");
                            out.push(e_pair(e_opt(x, |u| e_arr(&u.0)), Sx::N(n)));
                        }
                        out.push(e_pair(e_opt(it.last(), |u| e_arr(&u.0)), Sx::N(0)));
                        if let Some(&k) = ks.first() {
                            let total = c.clone().into_iter().count();
                            assert!(c.clone().into_iter().skip(k).count() == total.saturating_sub(k), "skip/count");
                        }
                        ok(Sx::L(out))
                    }
                    "icf_iter" => {
                        let mut it = d_icf(&a[0])?.into_iter();
                        let mut out = vec![];
                        let chk = |it: &IndexedCoproductFiniteFunctionIterator<K>| {
                            let n = it.len();
                            assert!(it.size_hint() == (n, Some(n)), "size_hint != len");
                            Sx::N(n)
                        };
                        out.push(e_pair(e_ff(&FF::initial(0)), chk(&it)));
                        while let Some(x) = it.next() {
                            out.push(e_pair(e_ff(&x), chk(&it)));
                        }
                        // exhausted iterators stay exhausted
                        assert!(it.next().is_none() && it.next().is_none());
                        assert!(it.len() == 0);
                        ok(Sx::L(out))
                    }
                    "ics_iter" => {
                        let mut it = d_ics(&a[0])?.into_iter();
                        let mut out = vec![];
                        let chk = |it: &IndexedCoproductSemifiniteFunctionIterator<K, usize>| {
                            let n = it.len();
                            assert!(it.size_hint() == (n, Some(n)), "size_hint != len");
                            Sx::N(n)
                        };
                        out.push(e_pair(Sx::L(vec![]), chk(&it)));
                        while let Some(x) = it.next() {
                            out.push(e_pair(e_arr(&x.0), chk(&it)));
                        }
                        assert!(it.next().is_none() && it.next().is_none());
                        assert!(it.len() == 0);
                        ok(Sx::L(out))
                    }
                    "a_to_dense" => {
                        let (d, k) = open_hypergraphs::array::vec::to_dense(&d_nats(&a[0])?);
                        e_pair(e_nats(&d), Sx::N(k))
                    }
                    "ops_validate" => e_opt(d_ops(&a[0])?.validate(), |p| e_ops(&p)),
                    "ops_new" => e_opt(
                        OPS::new(SemifiniteFunction(d_arr(&a[0])?), d_ics(&a[1])?, d_ics(&a[2])?),
                        |p| e_ops(&p),
                    ),
                    "ops_singleton" => e_ops(&OPS::singleton(
                        d_nat(&a[0])?,
                        SemifiniteFunction(d_arr(&a[1])?),
                        SemifiniteFunction(d_arr(&a[2])?),
                    )),
                    // ---------------- strict hypergraphs ----------------
                    "hg_new" => {
                        // `validate` on the raw struct must agree with the checked constructor
                        let raw = Hypergraph {
                            s: d_icf(&a[0])?,
                            t: d_icf(&a[1])?,
                            w: SemifiniteFunction(d_arr(&a[2])?),
                            x: SemifiniteFunction(d_arr(&a[3])?),
                        };
                        let v = match raw.validate() {
                            Ok(h) => ok(e_hg(&h)),
                            Err(e) => err(e_invalid_hg(&e)),
                        };
                        let r = match HG::new(
                            d_icf(&a[0])?,
                            d_icf(&a[1])?,
                            SemifiniteFunction(d_arr(&a[2])?),
                            SemifiniteFunction(d_arr(&a[3])?),
                        ) {
                            Ok(h) => ok(e_hg(&h)),
                            Err(e) => err(e_invalid_hg(&e)),
                        };
                        assert!(v == r, "validate and new differ");
                        r
                    }
                    "hg_empty" => e_hg(&HG::empty()),
                    "hg_discrete" => e_hg(&HG::discrete(SemifiniteFunction(d_arr(&a[0])?))),
                    "hg_is_discrete" => e_bool(d_hg(&a[0])?.is_discrete()),
                    "hg_coproduct" => {
                        let (g, h) = (d_hg(&a[0])?, d_hg(&a[1])?);
                        let r = g.coproduct(&h);
                        assert!(e_hg(&r) == e_hg(&(&g + &h)), "coproduct and + differ");
                        ok(e_hg(&r))
                    }
                    "hg_tensor_operations" => ok(e_hg(&HG::tensor_operations(d_ops(&a[0])?))),
                    "hg_in_degree" => ok(Sx::N(d_hg(&a[0])?.in_degree(d_nat(&a[1])?))),
                    "hg_out_degree" => ok(Sx::N(d_hg(&a[0])?.out_degree(d_nat(&a[1])?))),
                    "hg_coequalize_vertices" => ok(e_opt(
                        d_hg(&a[0])?.coequalize_vertices(&d_ff(&a[1])?),
                        |h| e_hg(&h),
                    )),
                    "hg_is_acyclic" => ok(e_bool(d_hg(&a[0])?.is_acyclic())),
                    "ohg_new" => {
                        let raw = OpenHypergraph { s: d_ff(&a[0])?, t: d_ff(&a[1])?, h: d_hg(&a[2])? };
                        let v = match raw.validate() {
                            Ok(f) => ok(e_ohg(&f)),
                            Err(e) => err(e_invalid_ohg(&e)),
                        };
                        let r = match OHG::new(d_ff(&a[0])?, d_ff(&a[1])?, d_hg(&a[2])?) {
                            Ok(f) => ok(e_ohg(&f)),
                            Err(e) => err(e_invalid_ohg(&e)),
                        };
                        assert!(v == r, "validate and new differ");
                        r
                    }
                    "ohg_tensor_operations" => ok(e_ohg(&OHG::tensor_operations(d_ops(&a[0])?))),
                    "ohg_singleton" => ok(e_ohg(&OHG::singleton(
                        d_nat(&a[0])?,
                        SemifiniteFunction(d_arr(&a[1])?),
                        SemifiniteFunction(d_arr(&a[2])?),
                    ))),
                    "ohg_source" => {
                        let f = d_ohg(&a[0])?;
                        let r = f.source();
                        assert!(r == Arrow::source(&f));
                        ok(e_arr(&r.0))
                    }
                    "ohg_target" => {
                        let f = d_ohg(&a[0])?;
                        let r = f.target();
                        assert!(r == Arrow::target(&f));
                        ok(e_arr(&r.0))
                    }
                    "ohg_identity" => ok(e_ohg(&OHG::identity(SemifiniteFunction(d_arr(&a[0])?)))),
                    "ohg_spider" => e_opt(
                        OHG::spider(d_ff(&a[0])?, d_ff(&a[1])?, SemifiniteFunction(d_arr(&a[2])?)),
                        |f| e_ohg(&f),
                    ),
                    "ohg_half_spider" => ok(e_opt(
                        <OHG as Spider<K>>::half_spider(d_ff(&a[0])?, SemifiniteFunction(d_arr(&a[1])?)),
                        |f| e_ohg(&f),
                    )),
                    "ohg_compose" => {
                        let (f, g) = (d_ohg(&a[0])?, d_ohg(&a[1])?);
                        let r1 = Arrow::compose(&f, &g);
                        let r2 = &f >> &g;
                        // (on the stateful back-end two calls may legitimately number the nodes differently)
                        assert!(
                            crate::adv::MODE.load(std::sync::atomic::Ordering::Relaxed) == 2
                                || e_opt(r2, |f| e_ohg(&f)) == e_opt(r1.clone(), |f| e_ohg(&f)),
                            "compose and >> differ"
                        );
                        ok(e_opt(r1, |f| e_ohg(&f)))
                    }
                    "ohg_tensor" => {
                        let (f, g) = (d_ohg(&a[0])?, d_ohg(&a[1])?);
                        let r1 = f.tensor(&g);
                        assert!(e_ohg(&r1) == e_ohg(&(&f | &g)), "tensor and | differ");
                        ok(e_ohg(&r1))
                    }
                    "ohg_twist" => ok(e_ohg(&OHG::twist(
                        SemifiniteFunction(d_arr(&a[0])?),
                        SemifiniteFunction(d_arr(&a[1])?),
                    ))),
                    "ohg_dagger" => e_ohg(&d_ohg(&a[0])?.dagger()),
                    "ohg_is_monogamous" => ok(e_bool(d_ohg(&a[0])?.is_monogamous())),
                    "ohg_is_acyclic" => ok(e_bool(d_ohg(&a[0])?.is_acyclic())),
                    // ---------------- graph, layering, eval ----------------
                    #[cfg(feature = "hooks")]
                    "g_converse" => ok(e_icf(&hooks::converse(&d_icf(&a[0])?))),
                    #[cfg(feature = "hooks")]
                    "g_operation_adjacency" => ok(e_icf(&hooks::operation_adjacency(&d_hg(&a[0])?))),
                    #[cfg(feature = "hooks")]
                    "g_node_adjacency" => ok(e_icf(&hooks::node_adjacency(&d_hg(&a[0])?))),
                    #[cfg(feature = "hooks")]
                    "g_indegree" => ok(e_ff(&hooks::indegree(&d_icf(&a[0])?))),
                    #[cfg(feature = "hooks")]
                    "g_kahn" => {
                        let (o, u) = hooks::kahn(&d_icf(&a[0])?);
                        ok(e_pair(e_arr(&o), e_arr(&u)))
                    }
                    #[cfg(feature = "hooks")]
                    "g_dense_relative_indegree" => ok(e_ff(&hooks::dense_relative_indegree(&d_icf(&a[0])?, &d_ff(&a[1])?))),
                    #[cfg(feature = "hooks")]
                    "g_sparse_relative_indegree" => {
                        let (i, c) = hooks::sparse_relative_indegree(&d_icf(&a[0])?, &d_ff(&a[1])?);
                        ok(e_pair(e_ff(&i), e_ff(&c)))
                    }
                    #[cfg(feature = "hooks")]
                    "g_filter" => ok(e_arr(&hooks::filter::<K>(&d_arr(&a[0])?, &d_arr(&a[1])?))),
                    #[cfg(feature = "hooks")]
                    "f_map_half_spider" => ok(e_ff(&hooks::map_half_spider(&d_ics(&a[0])?, &d_ff(&a[1])?))),
                    #[cfg(feature = "hooks")]
                    "f_to_operations" => ok(e_ops(&hooks::to_operations(&d_ohg(&a[0])?))),
                    #[cfg(feature = "hooks")]
                    "f_spider_map_arrow" => ok(e_ohg(&hooks::spider_map_arrow(
                        &d_ohg(&a[0])?,
                        d_ics(&a[1])?,
                        d_ohg(&a[2])?,
                    ))),
                    #[cfg(feature = "hooks")]
                    "f_interleave_blocks" => {
                        let r: OHG = hooks::interleave_blocks(&d_ics(&a[0])?, &d_ics(&a[1])?);
                        ok(e_ohg(&r))
                    }
                    #[cfg(feature = "hooks")]
                    "f_partial_dagger" => ok(e_ohg(&hooks::partial_dagger(
                        &d_ohg(&a[0])?,
                        &d_ics(&a[1])?,
                        &d_ics(&a[2])?,
                        &d_ics(&a[3])?,
                        &d_ics(&a[4])?,
                    ))),
                    "layer" => {
                        let (o, u) = layer(&d_ohg(&a[0])?);
                        ok(e_pair(e_ff(&o), e_arr(&u)))
                    }
                    "layered_operations" => {
                        let (l, u) = layered_operations(&d_ohg(&a[0])?);
                        ok(e_pair(Sx::L(l.iter().map(e_arr).collect()), e_arr(&u)))
                    }
                    "eval" => run_eval(&d_ohg(&a[0])?, d_u64s(&a[1])?),
                    // ---------------- morphisms ----------------
                    "arrow_new" => {
                        let (g, h, w, x) = d_arrow(&a[0])?;
                        let (g2, h2, w2, x2) = d_arrow(&a[0])?;
                        let v = HypergraphArrow { source: g2, target: h2, w: w2, x: x2 }.validate();
                        let r = HypergraphArrow::new(g, h, w, x);
                        assert!(
                            v.as_ref().err().map(|e| format!("{:?}", e)) == r.as_ref().err().map(|e| format!("{:?}", e)),
                            "validate and new differ"
                        );
                        ok(match r {
                            Ok(_) => Sx::L(vec![sym("ok")]),
                            Err(e) => err(sym(&format!("{:?}", e))),
                        })
                    }
                    "arrow_is_monomorphism" => {
                        let (g, h, w, x) = d_arrow(&a[0])?;
                        let m = HypergraphArrow { source: g, target: h, w, x };
                        ok(e_bool(m.is_monomorphism()))
                    }
                    "arrow_is_convex_subgraph" => {
                        let (g, h, w, x) = d_arrow(&a[0])?;
                        let m = HypergraphArrow { source: g, target: h, w, x };
                        ok(e_bool(m.is_convex_subgraph()))
                    }
                    _ => return None,
                };
                Some(r)
            }

            fn d_arrow(x: &Sx) -> Option<(HG, HG, FF, FF)> {
                match x {
                    Sx::L(l) if l.len() == 4 => Some((d_hg(&l[0])?, d_hg(&l[1])?, d_ff(&l[2])?, d_ff(&l[3])?)),
                    _ => None,
                }
            }
            fn d_sfa(x: &Sx) -> Option<SemifiniteArrow<K, usize>> {
                match x {
                    Sx::S(s) if s == "identity" => Some(SemifiniteArrow::Identity),
                    Sx::L(l) if l.len() == 2 => match d_sym(&l[0])? {
                        "finite" => Some(SemifiniteArrow::Finite(d_ff(&l[1])?)),
                        "semi" => Some(SemifiniteArrow::Semifinite(SemifiniteFunction(d_arr(&l[1])?))),
                        _ => None,
                    },
                    _ => None,
                }
            }
            fn e_sfa(a: &SemifiniteArrow<K, usize>) -> Sx {
                match a {
                    SemifiniteArrow::Identity => sym("identity"),
                    SemifiniteArrow::Finite(f) => Sx::L(vec![sym("finite"), e_ff(f)]),
                    SemifiniteArrow::Semifinite(u) => Sx::L(vec![sym("semi"), e_arr(&u.0)]),
                }
            }
            fn d_sfobj(x: &Sx) -> Option<SemifiniteObject<K, usize>> {
                match x {
                    Sx::S(s) if s == "set" => Some(SemifiniteObject::Set(std::marker::PhantomData)),
                    Sx::L(l) if l.len() == 2 && d_sym(&l[0])? == "finite" => {
                        Some(SemifiniteObject::Finite(d_nat(&l[1])?))
                    }
                    _ => None,
                }
            }
            fn e_sfobj(o: &SemifiniteObject<K, usize>) -> Sx {
                match o {
                    SemifiniteObject::Set(_) => sym("set"),
                    SemifiniteObject::Finite(n) => Sx::L(vec![sym("finite"), Sx::N(*n)]),
                }
            }
        }
    };
}
