//! S-expressions: the case / result language shared with the Coq model driver.
#[derive(Clone, Debug, PartialEq)]
pub enum Sx {
    N(usize),
    Z(u128, bool), // magnitude, negative
    S(String),
    L(Vec<Sx>),
}

pub fn parse(line: &str, pos: &mut usize) -> Option<Sx> {
    let b = line.as_bytes();
    while *pos < b.len() && (b[*pos] == b' ' || b[*pos] == b'\t') {
        *pos += 1;
    }
    if *pos >= b.len() {
        return None;
    }
    if b[*pos] == b'(' {
        *pos += 1;
        let mut items = vec![];
        loop {
            while *pos < b.len() && (b[*pos] == b' ' || b[*pos] == b'\t') {
                *pos += 1;
            }
            if *pos >= b.len() {
                return None;
            }
            if b[*pos] == b')' {
                *pos += 1;
                return Some(Sx::L(items));
            }
            items.push(parse(line, pos)?);
        }
    }
    if b[*pos] == b')' {
        return None;
    }
    let start = *pos;
    while *pos < b.len() && !matches!(b[*pos], b' ' | b'\t' | b'(' | b')') {
        *pos += 1;
    }
    let tok = &line[start..*pos];
    if tok.bytes().all(|c| c.is_ascii_digit()) {
        return Some(Sx::N(tok.parse().ok()?));
    }
    if let Some(rest) = tok.strip_prefix('#') {
        if let Some(m) = rest.strip_prefix('-') {
            return Some(Sx::Z(m.parse().ok()?, true));
        }
        return Some(Sx::Z(rest.parse().ok()?, false));
    }
    Some(Sx::S(tok.to_string()))
}

pub fn print(x: &Sx, out: &mut String) {
    match x {
        Sx::N(n) => out.push_str(&n.to_string()),
        Sx::Z(m, neg) => {
            out.push('#');
            if *neg && *m != 0 {
                out.push('-');
            }
            out.push_str(&m.to_string())
        }
        Sx::S(s) => out.push_str(s),
        Sx::L(l) => {
            out.push('(');
            for (i, y) in l.iter().enumerate() {
                if i > 0 {
                    out.push(' ');
                }
                print(y, out);
            }
            out.push(')');
        }
    }
}

pub fn sym(s: &str) -> Sx {
    Sx::S(s.to_string())
}
pub fn ok(x: Sx) -> Sx {
    Sx::L(vec![sym("ok"), x])
}
pub fn some(x: Sx) -> Sx {
    Sx::L(vec![sym("some"), x])
}
pub fn none() -> Sx {
    sym("none")
}
pub fn e_opt<T>(o: Option<T>, e: impl Fn(T) -> Sx) -> Sx {
    match o {
        Some(x) => some(e(x)),
        None => none(),
    }
}
pub fn e_bool(b: bool) -> Sx {
    sym(if b { "true" } else { "false" })
}
pub fn e_nats(v: &[usize]) -> Sx {
    Sx::L(v.iter().map(|x| Sx::N(*x)).collect())
}
pub fn e_pair(a: Sx, b: Sx) -> Sx {
    Sx::L(vec![a, b])
}
pub fn d_nat(x: &Sx) -> Option<usize> {
    match x {
        Sx::N(n) => Some(*n),
        _ => None,
    }
}
pub fn d_nats(x: &Sx) -> Option<Vec<usize>> {
    match x {
        Sx::L(l) => l.iter().map(d_nat).collect(),
        _ => None,
    }
}
pub fn d_list<T>(x: &Sx, d: impl Fn(&Sx) -> Option<T>) -> Option<Vec<T>> {
    match x {
        Sx::L(l) => l.iter().map(d).collect(),
        _ => None,
    }
}
pub fn d_sym(x: &Sx) -> Option<&str> {
    match x {
        Sx::S(s) => Some(s.as_str()),
        _ => None,
    }
}
pub fn d_bool(x: &Sx) -> Option<bool> {
    match d_sym(x)? {
        "true" => Some(true),
        "false" => Some(false),
        _ => None,
    }
}
pub fn d_u64s(x: &Sx) -> Option<Vec<u64>> {
    d_list(x, |y| match y {
        Sx::N(n) => Some(*n as u64),
        Sx::Z(m, false) => u64::try_from(*m).ok(),
        _ => None,
    })
}
pub fn e_u64s(v: &[u64]) -> Sx {
    Sx::L(v.iter().map(|x| Sx::Z(*x as u128, false)).collect())
}
