#!/usr/bin/env python3
"""Writes /verif/source_fingerprint.json: sha256 of every source file of /repo the model was written against.
The check compares the working tree with it; when a file differs (any edit, harmless or not) the quick tier
generates the thorough-size case stream for the run — more search effort exactly when the code has changed.
A difference is never by itself a violation."""
import hashlib, json, os, subprocess
files = subprocess.run("git -C /repo ls-files src Cargo.toml", shell=True, capture_output=True, text=True).stdout.split()
fp = {f: hashlib.sha256(open(os.path.join("/repo", f), "rb").read()).hexdigest() for f in sorted(files)}
head = subprocess.run("git -C /repo rev-parse HEAD", shell=True, capture_output=True, text=True).stdout.strip()
json.dump({"repo_head": head, "files": fp}, open("/verif/source_fingerprint.json", "w"), indent=1)
print(len(fp), "files at", head)
