#!/usr/bin/env python3
"""mkprops.py PID 'header comment' import1,import2 name=src name=src ...
Generates coq/Props/PID.v: each property theorem restated with its full statement (as printed by
Check on the source lemma) and closed by `exact src`."""
import subprocess, sys, re, os
pid, header, imports = sys.argv[1], sys.argv[2], sys.argv[3].split(',')
pairs = [a.split('=') for a in sys.argv[4:] if '=' in a and not a.startswith('extra:')]
extra = [a[6:] for a in sys.argv[4:] if a.startswith('extra:')]
coq = '/verif/coq'
q = '/tmp/mkprops_q.v'
with open(q, 'w') as f:
    f.write('From OHG Require Import ' + ' '.join(imports) + '.\nSet Printing Width 110.\nSet Printing Depth 1000.\n')
    for n, s in pairs:
        imp = n.startswith('!')
        n = n.lstrip('!')
        if imp: f.write('Set Printing Implicit.\n')
        f.write(f'Goal True. idtac "BEGIN {n}". Abort.\nCheck @{s}.\n')
        if imp: f.write('Unset Printing Implicit.\n')
    f.write('Goal True. idtac "END". Abort.\n')
out = subprocess.run(f'coqc -Q {coq} OHG {q}', shell=True, capture_output=True, text=True).stdout
out = '\n'.join(l for l in out.split('\n') if 'WARNING' not in l)
blocks = re.split(r'BEGIN ([A-Za-z0-9_\']+)\n', out)
types = {}
for i in range(1, len(blocks), 2):
    body = blocks[i + 1].split('END')[0]
    body = body[body.index(':') + 1:]
    types[blocks[i]] = body.rstrip()
with open(f'{coq}/Props/{pid}.v', 'w') as f:
    f.write(f'(* {header}\n   Property theorems only: each statement is spelled out and closed by [exact] of a lemma proved in Proofs/. *)\n')
    f.write('From OHG Require Import ' + ' '.join(imports) + '.\n\n')
    pairs = [(n.lstrip('!'), s) for n, s in pairs]
    for n, s in pairs:
        f.write(f'Theorem {n} :{types[n]}.\nProof. exact (@{s}). Qed.\n\n')
    for e in extra:
        f.write(e + '\n\n')
    for n, s in pairs:
        f.write(f'Print Assumptions {n}.\n')
print('wrote', pid, len(pairs), 'theorems')
