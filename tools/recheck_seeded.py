#!/usr/bin/env python3
"""Re-runs every kept seeded change (seeded/<P>-*/patch.diff) against the current machinery: apply to /repo, ./check <P>, undo.
Prints one line per change; exit 1 if some change is no longer reported.  (Evidence files are overwritten: run tools/run_all.sh after.)"""
import glob, json, os, subprocess, sys
ROOT = "/verif"
sel = sys.argv[1:]
def sh(c, cwd=None):
    p = subprocess.run(c, shell=True, cwd=cwd, capture_output=True, text=True)
    return p.returncode, p.stdout + p.stderr
rc, o = sh("git -C /repo status --porcelain")
if o.strip():
    print("/repo has uncommitted changes"); sys.exit(2)
bad = 0
dirs = sorted(glob.glob(f"{ROOT}/seeded/C??-*"))
if os.environ.get("REGR_ORDER"):      # a file with one change name per line: run exactly these, in this order
    dirs = [f"{ROOT}/seeded/{l.strip()}" for l in open(os.environ["REGR_ORDER"]) if l.strip()]
for d in dirs:
    name = os.path.basename(d)
    if sel and not any(name.startswith(s) for s in sel):
        continue
    pid = name[:3]
    patch = os.path.join(d, "patch.diff")
    if not os.path.exists(patch):
        continue
    rc, o = sh(f"git -C /repo apply {patch}")
    if rc:
        print(f"{name}: patch does not apply any more ({o.strip()[:80]})"); sh("git -C /repo checkout -- ."); continue
    rc, o = sh(f"./check {pid}", cwd=ROOT)
    v = [l for l in o.split("\n") if l.startswith("VIOLATION")]
    sh("git -C /repo checkout -- . && git -C /repo clean -fdq src")
    kind = "MISSED" if not v else ("no-input" if v[0].endswith("no-failing-input-found") else "caught")
    if kind != "caught":
        bad += 1
    print(f"{name}: {kind} {v[0][:110] if v else ''}", flush=True)
sys.exit(1 if bad else 0)
