#!/usr/bin/env python3
"""reprops.py PID [extra_import,...] [name=src ...]
Re-generates coq/Props/PID.v from its own header/imports/theorem list, appending further imports and theorems."""
import re, subprocess, sys
pid = sys.argv[1]
more_imp = [x for x in (sys.argv[2].split(',') if len(sys.argv) > 2 and '=' not in sys.argv[2] else []) if x]
more = [a for a in sys.argv[2:] if '=' in a]
src = open(f'/verif/coq/Props/{pid}.v').read()
header = re.match(r'\(\* (.*?)\n   Property theorems only', src, re.S).group(1)
imports = re.search(r'From OHG Require Import (.*?)\.\n', src).group(1).split()
pairs = re.findall(r'Theorem ([A-Za-z0-9_\']+) :.*?Proof\. exact \(@([A-Za-z0-9_\'.]+)\)\. Qed\.', src, re.S)
extra = []
have = {n for n, _ in pairs}
args = [f'{n}={s}' for n, s in pairs] + [m for m in more if m.split('=')[0].lstrip('!') not in have]
for i in more_imp:
    if i not in imports:
        imports.append(i)
subprocess.run(['python3', '/verif/tools/mkprops.py', pid, header, ','.join(imports)] + args, check=True)
