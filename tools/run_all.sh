#!/bin/bash
# run every quick check on the current tree (rewrites all evidence files); prints only problems
cd /verif
test -z "$(git -C /repo status --porcelain)" || { echo "/repo has uncommitted changes"; exit 1; }
rc=0
for i in $(seq -w 1 20); do
  out=$(./check C$i --tier ${1:-quick} 2>&1 | tail -1)
  case "$out" in *"exit=0"*) ;; *) echo "$out"; rc=1;; esac
done
exit $rc
