#!/bin/bash
# applies each behaviour-preserving refactoring of seeded/harmless to /repo, runs all 20 quick checks, undoes it.
# evidence files are overwritten by these runs: run tools/run_all.sh afterwards.
cd /verif
test -z "$(git -C /repo status --porcelain)" || { echo "/repo has uncommitted changes"; exit 1; }
rc=0
for d in ${HARMLESS_DIR:-seeded/harmless}/refactor_*.diff; do
  git -C /repo apply /verif/$d || { echo "cannot apply $d"; rc=1; continue; }
  for i in $(seq -w 1 20); do
    out=$(./check C$i 2>&1 | tail -1)
    case "$out" in *"exit=0"*) ;; *) echo "$d: $out"; rc=1;; esac
  done
  git -C /repo checkout -- .
  echo "$d done"
done
exit $rc
