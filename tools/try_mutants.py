#!/usr/bin/env python3
"""Confirm seeded changes produced by independent sub-agents and run the checks against them.

for each /tmp/mut/<P>-out/mut<N>:
  1. in the scratch worktree /tmp/mut/<P>: apply patch; full suite must pass; demo must fail;
     remove patch; demo must pass.
  2. apply the patch to /repo, run `./check <P>` (and optionally other properties), undo.
  3. keep it under /verif/seeded/<P>-mut<N>/ with an augmented meta.json.
usage: try_mutants.py [P-mutN ...]   (default: every one not yet in /verif/seeded)
"""
import glob
import json
import os
import shutil
import subprocess
import sys

ROOT = "/verif"
BASE = os.environ.get("MUT_BASE", "/tmp/mut")
TAG = os.environ.get("MUT_TAG", "")
ENV = dict(os.environ, CARGO_NET_OFFLINE="true")


def sh(cmd, cwd=None, timeout=1800):
    p = subprocess.run(cmd, shell=True, cwd=cwd, capture_output=True, text=True, timeout=timeout, env=ENV)
    return p.returncode, p.stdout + p.stderr


def confirm(pid, mut):
    wt = f"{BASE}/{pid}"
    out = f"{BASE}/{pid}-out/{mut}"
    patch = f"{out}/patch.diff"
    demo = f"{out}/demo.rs"
    name = f"demo_{pid}_{mut}"
    log = {}
    sh("git checkout -- . && git clean -fdq tests", cwd=wt)
    rc, o = sh(f"git apply {patch}", cwd=wt)
    if rc:
        return False, {"apply": o[-500:]}
    feats = "--features serde" if "serde" in open(demo).read() else ""
    rc_suite, o = sh("cargo test --workspace --offline 2>&1 | grep -E '^test result|FAILED|error' | head -20", cwd=wt)
    shutil.copy(demo, f"{wt}/tests/{name}.rs")
    suite_ok = "FAILED" not in o and "error" not in o and "test result: ok" in o
    log["suite_with_patch"] = o.strip().split("\n")
    rc_demo, o = sh(f"cargo test --offline {feats} --test {name} 2>&1 | tail -5", cwd=wt)
    demo_fails = "test result: FAILED" in o or "panicked" in o or "error: test failed" in o
    log["demo_with_patch"] = o.strip().split("\n")[-3:]
    sh(f"git apply -R {patch}", cwd=wt)
    rc_demo2, o = sh(f"cargo test --offline {feats} --test {name} 2>&1 | tail -5", cwd=wt)
    demo_passes = "test result: ok" in o
    log["demo_without_patch"] = o.strip().split("\n")[-3:]
    if os.path.exists(f"{wt}/tests/{name}.rs"):
        os.remove(f"{wt}/tests/{name}.rs")
    sh("git checkout -- . && git clean -fdq tests", cwd=wt)
    return suite_ok and demo_fails and demo_passes, log


def run_checks(pid, mut, props):
    patch = f"{BASE}/{pid}-out/{mut}/patch.diff"
    assert sh("git status --porcelain", cwd="/repo")[1].strip() == "", "/repo not clean"
    rc, o = sh(f"git apply {patch}", cwd="/repo")
    res = {}
    try:
        if rc:
            return {"apply_error": o[-300:]}
        for p in props:
            rc, o = sh(f"./check {p} --tier quick", cwd=ROOT, timeout=3000)
            viol = [l for l in o.split("\n") if l.startswith("VIOLATION")]
            res[p] = {"exit": rc, "violation": viol[0] if viol else None,
                      "summary": [l for l in o.split("\n") if l.startswith(p)][-1:]}
            if viol and "replay=" in viol[0]:
                rp = viol[0].split("replay=")[1].split()[0]
                if os.path.exists(rp):
                    res[p]["replay_head"] = open(rp).read()[:1500]
    finally:
        sh("git checkout -- .", cwd="/repo")
    return res


def main():
    todo = sys.argv[1:]
    if not todo:
        for d in sorted(glob.glob(BASE + "/C*-out/mut*")):
            pid = d.split("/")[-2][:3]
            mut = os.path.basename(d)
            if os.path.exists(f"{d}/patch.diff") and not os.path.exists(f"{ROOT}/seeded/{pid}-{TAG}{mut}/meta.json"):
                todo.append(f"{pid}-{mut}")
    for t in todo:
        pid, mut = t.split("-")
        ok, log = confirm(pid, mut)
        print(f"== {t}: confirmed={ok}")
        if not ok:
            print(json.dumps(log, indent=1)[:1500])
            continue
        res = run_checks(pid, mut, [pid])
        caught = bool(res.get(pid, {}).get("violation"))
        print(f"   check {pid}: {res.get(pid, {}).get('violation')}")
        dst = f"{ROOT}/seeded/{pid}-{TAG}{mut}"
        os.makedirs(dst, exist_ok=True)
        shutil.copy(f"{BASE}/{pid}-out/{mut}/patch.diff", dst)
        shutil.copy(f"{BASE}/{pid}-out/{mut}/demo.rs", dst)
        meta = json.load(open(f"{BASE}/{pid}-out/{mut}/meta.json"))
        meta["confirmed_by_me"] = log
        meta["checks"] = res
        meta["caught"] = caught
        json.dump(meta, open(f"{dst}/meta.json", "w"), indent=1)


if __name__ == "__main__":
    main()
