#!/bin/bash
# reverts each fix: commit of /repo in the working tree (not committed), runs the checks of the properties it repaired, restores.
# every run must report a VIOLATION (a fixed entry in known_findings.json suppresses nothing).
cd /verif
test -z "$(git -C /repo status --porcelain)" || { echo "/repo has uncommitted changes"; exit 1; }
rc=0
run() { # commit, properties...
  c=$1; shift
  git -C /repo revert -n $c >/dev/null 2>&1 || { echo "cannot revert $c"; git -C /repo revert --abort 2>/dev/null; git -C /repo checkout -- . ; rc=1; return; }
  for p in "$@"; do
    out=$(./check $p 2>&1 | grep "^VIOLATION\|^KNOWN" | head -2 | tr '\n' ' ')
    echo "revert $c $p: ${out:-NO VIOLATION REPORTED}"
    case "$out" in VIOLATION*) ;; *) rc=1;; esac
  done
  git -C /repo revert --abort 2>/dev/null; git -C /repo reset -q --hard HEAD
}
run a114d50 C09
run 8e1c3cc C15 C16 C17 C18
run 7c482b0 C17
run 90bb592 C08
run 4d757ec C19
exit $rc
